#!/venv/bin/python
"""Regenerates /verif/MANIFEST.json from the table below (single source of truth) and validates it."""
import json, os, sys
ROOT = os.path.dirname(os.path.dirname(os.path.abspath(__file__)))
sys.path.insert(0, ROOT)
from tools.manifest_table import CHECKS, NOT_APPLICABLE

props = [json.loads(l) for l in open(os.path.join(ROOT, 'properties.jsonl'))]
ids = [p['id'] for p in props]
checks = []
for pid in ids:
    if pid not in CHECKS:
        continue
    c = CHECKS[pid]
    checks.append({
        'property_id': pid,
        'quick_cmd': './check %s --tier quick' % pid,
        'thorough_cmd': './check %s --tier thorough' % pid,
        'evidence_file': '/verif/evidence/%s.json' % pid,
        'replay_cmd_template': './check %s --replay {path}' % pid,
        'engine': c.get('engine', 'lattice'),
        'level_claimed': {'category': c['level'], 'text': c['text'], 'design_ref': c.get('design_ref', 'DESIGN.md section 4 (%s)' % pid)},
        'level_note': c['note'],
        'technique': c['technique'],
    })
na = [{'property_id': pid, 'reason': NOT_APPLICABLE.get(pid, 'check not built yet (work in progress)')} for pid in ids if pid not in CHECKS]
man = {
    'version': 1,
    'setup_cmd': '/venv/bin/python -c "import scikit_tt, numpy, scipy, os; assert os.path.realpath(scikit_tt.__file__).startswith(\'/repo/\')" && /venv/bin/python -m compileall -q /verif/vt',
    'hooks': {
        'guard': 'SCIKIT_TT_VERIF',
        'enable': 'no source hooks exist: the harness wraps module-level functions of scikit_tt from outside (setattr) and stubs matplotlib in sys.modules; nothing in /repo is guarded',
        'baseline_off_cmd': 'cd /repo && /venv/bin/python -m pytest -ra -q -p no:cacheprovider --timeout=900 --continue-on-collection-errors',
        'source_commits': [],
        'add_only': True,
    },
    'engines': [
        {'name': 'lattice', 'path': 'vt/runner.py', 'serves_properties': [p for p in ids if p in CHECKS and CHECKS[p].get('engine', 'lattice') == 'lattice'],
         'kind_free_text': 'bounded-exhaustive enumeration of configuration lattices, every point executed on the real code and compared with a dense NumPy reference model; micro-step monitors for iterative solvers'},
        {'name': 'explorer', 'path': 'vt/explorer.py', 'serves_properties': [p for p in ids if p in CHECKS and CHECKS[p].get('engine') == 'explorer'],
         'kind_free_text': 'explicit-state BFS over API-call histories on live objects with canonical state hashing (shapes, layout flags, buffer-sharing partition) and a pure-NumPy shadow model'},
    ],
    'checks': checks,
    'not_applicable': na,
    'notes': 'All checks run the current /repo working tree (editable install). known_findings.json lists recorded defects; see DESIGN.md.',
}
json.dump(man, open(os.path.join(ROOT, 'MANIFEST.json'), 'w'), indent=1)
try:
    import jsonschema
    jsonschema.validate(man, json.load(open('/root/.vp/MANIFEST.schema.json')))
    print('MANIFEST.json valid: %d checks, %d not_applicable' % (len(checks), len(na)))
except ImportError:
    print('jsonschema not available here; written without validation')
