#!/bin/sh
# usage: tools/run_all.sh [tier] [seed]  — runs every registered check once, prints one summary line per property
tier=${1:-quick}; seed=${2:-0}
cd "$(dirname "$0")/.."
rc_all=0
for id in C01 C02 C03 C04 C05 C06 C07 C08 C09 C10 C11 C12 C13 C14 C15 C16 C17 C18 C19 C20; do
  out=$(VERIF_SEED=$seed ./check $id --tier $tier 2>&1); rc=$?
  [ $rc -ne 0 ] && rc_all=1
  echo "$out" | grep -E "^(VIOLATION|KNOWN-FINDING|NONDETERMINISM|ERROR)" | head -5
  echo "rc=$rc $(echo "$out" | tail -1 | cut -c1-260)"
done
exit $rc_all
