#!/bin/sh
# usage: tools/try_mutant.sh <patch.diff> <ID> [<ID>...]  — applies a seeded change to /repo's working tree, runs quick checks, restores
p=$1; shift
git -C /repo diff --quiet || { echo "repo dirty"; exit 2; }
git -C /repo apply "$p" || { echo "PATCH DOES NOT APPLY: $p"; exit 2; }
cd /verif
for id in "$@"; do
  out=$(VERIF_TIER=${TIER:-quick} ./check $id --tier ${TIER:-quick} 2>&1); rc=$?
  echo "$out" | grep -c "^VIOLATION" | xargs echo "  $id rc=$rc violations_lines="
  echo "$out" | grep -A2 "^VIOLATION" | head -${LINES_SHOWN:-6} | cut -c1-200
  echo "$out" | tail -1 | cut -c1-250
done
git -C /repo checkout -- .
