#!/venv/bin/python
"""Evaluate every seeded change under /verif/seeded against the quick check of its property.
Each change is applied in its own scratch git worktree of /repo HEAD under /tmp/det (outside /repo and /verif, removed
afterwards); the check is pointed at the worktree with VERIF_REPO and writes its evidence/replays under /tmp/det/out.
Also evaluates the reverted `fix:` commits listed in known_findings.json (reverse-applied in a scratch worktree).
Writes /verif/DETECTION.md and /verif/detection.json.  usage: tools/detection.py [-j 3] [--only C07 | --names C07_m19,C07_m20 (merge into detection.json)]"""
import sys, os, json, re, subprocess, shutil, glob, concurrent.futures as cf, time
ROOT = os.path.dirname(os.path.dirname(os.path.abspath(__file__)))


def sh(cmd, cwd=None, env=None, timeout=7200):
    p = subprocess.run(cmd, shell=True, cwd=cwd, env=env, capture_output=True, text=True, timeout=timeout)
    return p.returncode, p.stdout + p.stderr


def run_one(item):
    name, pid, kind, src = item
    wt = '/tmp/det/' + name
    out = {'name': name, 'property': pid, 'kind': kind}
    sh('git -C /repo worktree remove --force %s' % wt)
    shutil.rmtree(wt, ignore_errors=True)
    rc, o = sh('git -C /repo worktree add -q --detach %s HEAD' % wt)
    if rc:
        out['error'] = o[-300:]
        return out
    try:
        if kind == 'seeded':
            rc, o = sh('git apply %s' % src, cwd=wt)
        else:
            rc, o = sh('git -C /repo show %s -- scikit_tt | git apply -R' % src, cwd=wt)
            if rc:   # a later fix touched neighbouring lines: take the files as they were before this fix
                rc2, files = sh('git -C /repo show --name-only --format= %s -- scikit_tt' % src)
                rc, o = sh('git checkout %s~1 -- %s' % (src, ' '.join(files.split())), cwd=wt)
                out['note'] = 'reverse patch did not apply; files restored to the parent of the fix (later fixes to the same files are absent too)'
        if rc:
            out['error'] = 'patch does not apply: ' + o[-300:]
            return out
        env = dict(os.environ, VERIF_REPO=wt, VERIF_OUT='/tmp/det/out/' + name, VERIF_JOBS=os.environ.get('DET_JOBS', '6'))
        t0 = time.time()
        rc, o = sh('./check %s --tier quick' % pid, cwd=ROOT, env=env)
        out['wall_s'] = round(time.time() - t0, 1)
        out['exit'] = rc
        keys = re.findall(r'^  key=(\S+) cases=(\d+)', o, flags=re.M)
        out['violation_keys'] = len(re.findall(r'^VIOLATION', o, flags=re.M))
        out['first_keys'] = ['%s (%s cases)' % k for k in keys[:3]]
        out['detected'] = rc == 1 and out['violation_keys'] > 0
        if rc not in (0, 1):
            out['error'] = o[-400:]
    finally:
        sh('git -C /repo worktree remove --force %s' % wt)
        shutil.rmtree(wt, ignore_errors=True)
        shutil.rmtree('/tmp/det/out/' + name, ignore_errors=True)
    return out


# changes written for one property whose effect is (also) the business of another property's check
ALSO = {'C15_m10': ['C14'], 'C15_m16': ['C14'], 'C03_m15': ['C04'], 'C19_m15': ['C04'],
        'C03_m18': ['C04'], 'C16_m17': ['C05'], 'C17_m18': ['C05'], 'C19_m18': ['C14'], 'C18_m17': ['C15'], 'C10_m21': ['C01'], 'C18_m21': ['C14'], 'C16_m23': ['C04']}


def retired_reason(item):
    mp = ROOT + '/seeded/%s/meta.json' % item[0]
    if item[2] == 'seeded' and os.path.exists(mp):
        return json.load(open(mp)).get('retired')
    return None


def run_item(item):
    why = retired_reason(item)
    if why:     # a later fix: commit removed the change's effect: its own demo passes with the patch applied to HEAD
        return {'name': item[0], 'property': item[1], 'kind': item[2], 'retired': why, 'detected_by': []}
    r = run_one(item)
    r['detected_by'] = [item[1]] if r.get('detected') else []
    for other in ALSO.get(item[0], []):
        if not r.get('detected'):
            r2 = run_one((item[0] + '_via_' + other, other, item[2], item[3]))
            if r2.get('detected'):
                r.update({k: r2[k] for k in ('detected', 'violation_keys', 'first_keys', 'exit')})
                r['detected_by'] = [other]
                r['note'] = 'reported by the check of %s (the defect is in code that property owns)' % other
    return r


def main():
    j = int(sys.argv[sys.argv.index('-j') + 1]) if '-j' in sys.argv else 3
    only = sys.argv[sys.argv.index('--only') + 1] if '--only' in sys.argv else None
    items = []
    for d in sorted(glob.glob(ROOT + '/seeded/*_m*')):
        name = os.path.basename(d)
        pid = name.split('_')[0]
        items.append((name, pid, 'seeded', d + '/patch.diff'))
    kf = json.load(open(ROOT + '/known_findings.json'))
    for line in kf.get('fixed', []):
        m = re.match(r'fixed: property=(C\d+) ([0-9a-f]{7,}) ', line)
        if m:
            items.append(('revert_%s_%s' % (m.group(1), m.group(2)), m.group(1), 'reverted-fix', m.group(2)))
    if only:
        items = [i for i in items if i[1] == only]
    names = sys.argv[sys.argv.index('--names') + 1].split(',') if '--names' in sys.argv else None
    all_items = items
    if names:       # re-evaluate the named changes only and merge them into the existing detection.json
        items = [i for i in items if i[0] in names]
    os.makedirs('/tmp/det/out', exist_ok=True)
    res = []
    with cf.ThreadPoolExecutor(j) as ex:
        for r in ex.map(run_item, items):
            print(json.dumps(r), flush=True)
            res.append(r)
    if only:
        return
    if names:
        prev = {r['name']: r for r in json.load(open(ROOT + '/detection.json'))}
        prev.update({r['name']: r for r in res})
        res = [prev[i[0]] for i in all_items if i[0] in prev]
    json.dump(res, open(ROOT + '/detection.json', 'w'), indent=1)
    head = subprocess.run('git -C /repo rev-parse --short HEAD', shell=True, capture_output=True, text=True).stdout.strip()
    lines = ['# Detection of property-breaking changes by the quick checks', '',
             'Generated by `tools/detection.py` at /repo HEAD %s. Every change is applied in a scratch worktree outside /repo and /verif; '
             'the quick check of the property it breaks is run against it. "seeded" = change written by an independent sub-agent that '
             'saw only the property text (confirmed by me: demo fails with / passes without the change, the 98 baseline tests still pass; '
             'see seeded/<name>/meta.json); "reverted-fix" = one of the `fix:` commits of this work reverse-applied (the original defect).' % head, '',
             '| change | property | kind | detected | violation keys | first keys | what it is |', '|---|---|---|---|---|---|---|']
    for r in res:
        what = ''
        mp = ROOT + '/seeded/%s/meta.json' % r['name']
        if os.path.exists(mp):
            what = (json.load(open(mp)).get('title') or '')[:110]
        else:
            for line in kf.get('fixed', []):
                if r['name'].split('_')[-1] in line:
                    what = line.split(' ', 3)[-1][:110]
        if r.get('retired'):
            lines.append('| %s | %s | %s | retired | | | %s — %s |' % (r['name'], r['property'], r['kind'], what.replace('|', '/'), r['retired'].replace('|', '/')))
            continue
        lines.append('| %s | %s | %s | %s | %s | %s | %s |' % (r['name'], r['property'], r['kind'], ('YES' if r.get('detected_by', [r['property']]) == [r['property']] else 'YES (by %s)' % ','.join(r['detected_by'])) if r.get('detected') else ('ERROR ' + r.get('error', '')[:60] if r.get('error') else '**NO**'),
                                                               r.get('violation_keys', ''), '; '.join(r.get('first_keys', []))[:160], what.replace('|', '/')))
    live = [r for r in res if not r.get('retired')]
    n = len(live); d = sum(1 for r in live if r.get('detected'))
    lines += ['', '%d of %d changes detected (%d retired changes, whose effect a later fix: commit removed, are listed but not counted).' % (d, n, len(res) - n)]
    open(ROOT + '/DETECTION.md', 'w').write('\n'.join(lines) + '\n')
    print('%d of %d detected' % (d, n))


if __name__ == '__main__':
    main()
