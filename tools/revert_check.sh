#!/bin/sh
# usage: tools/revert_check.sh <commit> <ID> [tier]  — temporarily reverts a fix commit in /repo's working tree, runs the check, restores
c=$1; id=$2; tier=${3:-quick}
git -C /repo diff --quiet || { echo "repo dirty"; exit 2; }
git -C /repo show $c -- scikit_tt | git -C /repo apply -R || exit 2
cd /verif && ./check $id --tier $tier | grep -v "^  " | tail -${4:-6}
git -C /repo checkout -- . 
