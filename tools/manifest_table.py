"""Per-property manifest entries (source for tools/gen_manifest.py)."""
LAT = 'bounded-exhaustive enumeration (model checking of the implementation over a configuration lattice) against a dense reference model'
CHECKS = {
 'C01': {'level': 'exploration', 'technique': LAT,
         'text': 'Every point of the lattice order x dims x rank vectors x dtype pairs x value family is executed on the real TT class and every value-level operation compared with an independent einsum evaluation; exhaustive over structure within the bounds, representative over entry values.',
         'note': 'NumPy dense kernels are the reference; bounds: order <= 3 (4 thorough), mode sizes <= 2 (3), ranks <= 2 (3); entry values from seeded families (gauss, small-int, non-negative).'},

 'C02': {'level': 'exploration', 'technique': LAT,
         'text': 'tensordot is executed at every point of (order pair x 4 modes x every num_axes x site-type patterns x all internal rank vectors x outer ranks x dtype pairs x overwrite) and compared with numpy.tensordot on the einsum-contracted operands including the documented mode ordering; rank_tensordot, concatenate, rank_transpose, diag (all site subsets), squeeze (all placements of 1x1 modes), tt2qtt (all ordered factorisations), qtt2tt (all compositions), the split/merge round trip and build_core(_vector) (all zero placements x complex patterns) likewise.',
         'note': 'bounds: orders <= 3 (4), site types over {1,2}(3), ranks <= 2 (3), mode sizes for QTT in {1,2,3,4,6}; values from seeded gaussian family; the undocumented orientation of the complete-both contraction is taken from the library.'},

 'C03': {'level': 'exploration', 'technique': LAT,
         'text': 'Every full sweep and every admissible (start_index,end_index) pair of ortho_left/ortho_right plus ortho() is executed at every point of order x dims x rank vector (incl. over-parameterised) x dtype x family (generic, rank-deficient cores, integers); after each call the dense value, the isometry of every processed core, rank monotonicity, bit-identity of untouched cores, metadata consistency and the return identity are checked.',
         'note': 'bounds: order <= 3 (4), mode sizes <= 2 (3), ranks in {1,2,3,5}; threshold 0 / unbounded rank; values from seeded families.'},
 'C04': {'level': 'exploration', 'technique': LAT,
         'text': 'Every truncation setting (int caps 1..4, every per-bond cap list over {1,2,3,inf}, six thresholds and their combinations) is run through every entry point on every tensor layout x spectrum family x dtype; rank caps, the TT-SVD quasi-optimality bound computed from the singular values of the dense unfoldings, the relative-threshold bound with the oracle-counted number of discarded directions and exactness at threshold 0 are asserted.',
         'note': 'bounds: order 2-3 (4), mode sizes {2,3} with operator layouts; spectra from four constructed families; for one-sided sweeps on a non-orthonormal input only the rank cap is a theorem and only it is asserted.'},
 'C05': {'level': 'exploration', 'technique': LAT,
         'text': 'svd and pinv are executed for every split index at every point of order x row dims x rank vector x dtype x family (generic, rank-deficient unfoldings, integers) x ortho flags x overwrite x threshold x max_rank and compared with numpy.linalg.svd/pinv of the unfolding: orthonormal factors, singular values, reconstruction, conjugate-transposed pseudoinverse, input bit-identity iff overwrite=False.',
         'note': 'bounds: order 2-3 (4), row sizes <= 3, ranks <= 3; thresholds in a spectral gap (D7); pinv on rank-deficient unfoldings only with threshold > 0.'},

 'C06': {'level': 'model_checking', 'engine': 'explorer', 'technique': 'explicit-state breadth-first model checking of API-call histories on the live implementation (replay-from-scratch, canonical state hashing, shadow-model invariants after every transition)',
         'text': 'Breadth-first search over every history of API calls (89-operation alphabet: TT algebra, contractions, in-place/overwrite variants, user-level element writes, linear/eigen solvers, all ODE integrators) on 11 initial pools of live tensor trains, results fed back as operands, states deduplicated by metadata + memory-layout flags + buffer-sharing partition; after every transition every live object is compared with its NumPy shadow (value, metadata), every returned TT is checked for consistency. Quick: all histories of length <= 2 plus all length-3 histories ending in an in-place call on a target that shares buffers; thorough: all histories of length <= 3 plus the reduced level 4.',
         'note': 'values are excluded from the state hash (argument in DESIGN.md C06); at most 2 in-place calls per history; pool capacity 5; numerically conditioned routines that raise are treated as disabled transitions (arguments still checked); overwrite=True variants of svd/pinv consume self.'},
}
NOT_APPLICABLE = {}
