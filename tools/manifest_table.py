"""Per-property manifest entries (source for tools/gen_manifest.py)."""
LAT = 'bounded-exhaustive enumeration (model checking of the implementation over a configuration lattice) against a dense reference model'
CHECKS = {
 'C01': {'level': 'exploration', 'technique': LAT,
         'text': 'Every point of the lattice order x dims x rank vectors x dtype pairs x value family is executed on the real TT class and every value-level operation compared with an independent einsum evaluation; exhaustive over structure within the bounds, representative over entry values.',
         'note': 'NumPy dense kernels are the reference; bounds: order <= 3 (4 thorough), mode sizes <= 2 (3), ranks <= 2 (3); entry values from seeded families (gauss, small-int, non-negative).'},
}
NOT_APPLICABLE = {}
