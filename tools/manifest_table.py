"""Per-property manifest entries (source for tools/gen_manifest.py)."""
LAT = 'bounded-exhaustive enumeration (model checking of the implementation over a configuration lattice) against a dense reference model'
CHECKS = {
 'C01': {'level': 'exploration', 'technique': LAT,
         'text': 'Every point of the lattice order x dims x rank vectors x dtype pairs x value family is executed on the real TT class and every value-level operation compared with an independent einsum evaluation; exhaustive over structure within the bounds, representative over entry values.',
         'note': 'NumPy dense kernels are the reference; bounds: order <= 3 (4 thorough), mode sizes <= 2 (3), ranks <= 2 (3); entry values from seeded families (gauss, small-int, non-negative).'},

 'C02': {'level': 'exploration', 'technique': LAT,
         'text': 'tensordot is executed at every point of (order pair x 4 modes x every num_axes x site-type patterns x all internal rank vectors x outer ranks x dtype pairs x overwrite) and compared with numpy.tensordot on the einsum-contracted operands including the documented mode ordering; rank_tensordot, concatenate, rank_transpose, diag (all site subsets), squeeze (all placements of 1x1 modes), tt2qtt (all ordered factorisations), qtt2tt (all compositions), the split/merge round trip and build_core(_vector) (all zero placements x complex patterns) likewise.',
         'note': 'bounds: orders <= 3 (4), site types over {1,2}(3), ranks <= 2 (3), mode sizes for QTT in {1,2,3,4,6}; values from seeded gaussian family; the undocumented orientation of the complete-both contraction is taken from the library.'},
}
NOT_APPLICABLE = {}
