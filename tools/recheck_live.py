#!/venv/bin/python
"""For seeded changes that a check does not report: is the change still property-breaking on /repo HEAD? Applies the patch in a scratch
worktree (outside /repo and /verif, removed afterwards) and runs the change's own demo (exit 1 = still breaks the property).
usage: tools/recheck_live.py C06_m2 [more names]"""
import sys, os, subprocess, shutil
ROOT = os.path.dirname(os.path.dirname(os.path.abspath(__file__)))
for name in sys.argv[1:]:
    wt = '/tmp/live/' + name
    subprocess.run('git -C /repo worktree remove --force %s' % wt, shell=True, capture_output=True)
    shutil.rmtree(wt, ignore_errors=True)
    os.makedirs('/tmp/live', exist_ok=True)
    subprocess.run('git -C /repo worktree add -q --detach %s HEAD' % wt, shell=True, check=True)
    try:
        env = dict(os.environ, PYTHONPATH=wt, OPENBLAS_NUM_THREADS='1', OMP_NUM_THREADS='1', PYTHONWARNINGS='ignore')
        demo = '%s/seeded/%s/demo.py' % (ROOT, name)
        c0 = subprocess.run(['/venv/bin/python', demo], cwd=wt, env=env, capture_output=True, text=True, timeout=1800).returncode
        a = subprocess.run('git apply %s/seeded/%s/patch.diff' % (ROOT, name), shell=True, cwd=wt, capture_output=True, text=True)
        if a.returncode:
            print(name, 'patch does not apply to HEAD:', a.stderr.strip()[-200:]); continue
        c1 = subprocess.run(['/venv/bin/python', demo], cwd=wt, env=env, capture_output=True, text=True, timeout=1800).returncode
        print(name, 'demo exit clean=%d patched=%d ->' % (c0, c1), 'LIVE' if (c0 == 0 and c1 != 0) else 'NOT LIVE at HEAD')
    finally:
        subprocess.run('git -C /repo worktree remove --force %s' % wt, shell=True, capture_output=True)
        shutil.rmtree(wt, ignore_errors=True)
