#!/venv/bin/python
"""usage: tools/try_wt.py <patch.diff> <ID> [<ID>...] — runs quick checks against a scratch worktree with the patch applied (never touches /repo)"""
import sys, os, json
sys.path.insert(0, os.path.dirname(os.path.abspath(__file__)))
import detection
patch = os.path.abspath(sys.argv[1])
for pid in sys.argv[2:]:
    name = 'try_%s_%d' % (pid, os.getpid())
    r = detection.run_one((name, pid, 'seeded', patch))
    print(pid, 'DETECTED' if r.get('detected') else 'missed', r.get('exit'), r.get('violation_keys'), r.get('first_keys'), r.get('error', ''), '%ss' % r.get('wall_s'))
