#!/venv/bin/python
"""Independent confirmation of seeded changes produced by sub-agents.
For each /tmp/mut/out/<ID>/m<N>: scratch worktree of /repo HEAD (outside /repo and /verif), demo on clean tree (expect 0),
apply patch, demo (expect 1), full baseline test suite with junit (expect the 98 stable tests to pass), remove the worktree.
Writes /verif/seeded/<ID>_m<N>/{patch.diff,demo.py,meta.json}. usage: confirm_mutants.py ID:N [ID:N ...] [-j 4]"""
import sys, os, json, subprocess, shutil, concurrent.futures as cf, xml.etree.ElementTree as ET, time
BASE = json.load(open('/root/.vp/BASELINE.json'))
STABLE = set(BASE['stable_pass'])
ENV = dict(os.environ, OPENBLAS_NUM_THREADS='1', OMP_NUM_THREADS='1', PYTHONWARNINGS='ignore')


def sh(cmd, cwd=None, env=None, timeout=3600):
    p = subprocess.run(cmd, shell=True, cwd=cwd, env=env or ENV, capture_output=True, text=True, timeout=timeout)
    return p.returncode, (p.stdout + p.stderr)


def one(spec):
    pid, n = spec.split(':')
    src = '/tmp/mut/out/%s/m%s' % (pid, n)
    wt = '/tmp/confirm/%s_m%s' % (pid, n)
    out = {'property': pid, 'mutant': 'm' + n}
    try:
        agent_meta = json.load(open(src + '/meta.json'))
    except Exception as e:
        agent_meta = {'error': repr(e)}
    os.makedirs('/tmp/confirm', exist_ok=True)
    sh('git -C /repo worktree remove --force %s' % wt)
    rc, o = sh('git -C /repo worktree add -q --detach %s HEAD' % wt)
    if rc:
        out['error'] = 'worktree: ' + o
        return out
    try:
        env = dict(ENV, PYTHONPATH=wt)
        rc0, o0 = sh('/venv/bin/python %s/demo.py' % src, cwd=wt, env=env, timeout=1800)
        out['demo_clean_exit'] = rc0
        rc, o = sh('git apply %s/patch.diff' % src, cwd=wt)
        if rc:
            out['error'] = 'patch does not apply to current HEAD: ' + o[-300:]
            return out
        rc1, o1 = sh('/venv/bin/python %s/demo.py' % src, cwd=wt, env=env, timeout=1800)
        out['demo_mutant_exit'] = rc1
        out['demo_mutant_output_tail'] = o1[-600:]
        junit = wt + '/junit.xml'
        t0 = time.time()
        rc, o = sh('/venv/bin/python -m pytest -q -p no:cacheprovider --timeout=900 --continue-on-collection-errors --junitxml=%s' % junit,
                   cwd=wt, env=env, timeout=7200)
        out['suite_wall_s'] = round(time.time() - t0)
        out['suite_summary'] = o.strip().splitlines()[-1] if o.strip() else ''
        passed = set()
        for tc in ET.parse(junit).getroot().iter('testcase'):
            if not any(ch.tag in ('failure', 'error', 'skipped') for ch in tc):
                passed.add('%s::%s' % (tc.get('classname'), tc.get('name')))
        missing = sorted(STABLE - passed)
        out['baseline_tests_passing'] = len(STABLE & passed)
        out['baseline_tests_missing'] = missing
        out['confirmed'] = (rc0 == 0 and rc1 != 0 and not missing)
    finally:
        sh('git -C /repo worktree remove --force %s' % wt)
        shutil.rmtree(wt, ignore_errors=True)
    dst = '/verif/seeded/%s_m%s' % (pid, n)
    if out.get('confirmed'):
        os.makedirs(dst, exist_ok=True)
        shutil.copy(src + '/patch.diff', dst + '/patch.diff')
        shutil.copy(src + '/demo.py', dst + '/demo.py')
        meta = {'property': pid, 'title': agent_meta.get('title'), 'files': agent_meta.get('files'),
                'what_changed': agent_meta.get('what_changed'), 'breaks': agent_meta.get('why_it_breaks_the_property'),
                'needs_to_manifest': agent_meta.get('needs_to_manifest'),
                'confirmed_by_me': {'repo_head': subprocess.run('git -C /repo rev-parse --short HEAD', shell=True, capture_output=True, text=True).stdout.strip(),
                                    'demo_clean_exit': out['demo_clean_exit'], 'demo_mutant_exit': out['demo_mutant_exit'],
                                    'suite': out['suite_summary'], 'baseline_tests_passing': out['baseline_tests_passing'],
                                    'what_i_ran': 'scratch worktree under /tmp/confirm; demo.py before/after git apply; full pytest baseline command with junit, compared with the 98 stable tests of BASELINE.json'}}
        json.dump(meta, open(dst + '/meta.json', 'w'), indent=1)
    return out


if __name__ == '__main__':
    args = [a for a in sys.argv[1:] if ':' in a]
    j = int(sys.argv[sys.argv.index('-j') + 1]) if '-j' in sys.argv else 4
    with cf.ThreadPoolExecutor(j) as ex:
        for res in ex.map(one, args):
            print(json.dumps({k: v for k, v in res.items() if k != 'demo_mutant_output_tail'}), flush=True)
