"""Runner: exhaustive enumeration of a property's bounded space on the real code in /repo.

usage: python -m vt.runner <ID> [--tier quick|thorough] [--replay file] [--jobs N]

A property module (vt/props/cXX.py) provides either
  cases(tier) -> iterator of JSON-serialisable case dicts, and run_case(case, seed) -> vt.core.R
or
  explore(tier, seed, jobs) -> dict(coverage=..., fails=[(key, msg, case)], ...)
The runner executes every case (process pool), re-runs failing cases once to rule out nondeterminism, writes
replay files, classifies failures against /verif/known_findings.json and writes /verif/evidence/<ID>.json.
"""
import os
for _v in ('OPENBLAS_NUM_THREADS', 'OMP_NUM_THREADS', 'MKL_NUM_THREADS'):
    os.environ.setdefault(_v, '1')
import sys, json, time, hashlib, importlib, argparse, itertools, subprocess, traceback, collections
import multiprocessing as mp

ROOT = os.path.dirname(os.path.dirname(os.path.abspath(__file__)))
# The registered checks always run against /repo. VERIF_REPO is used only by tools/detection.py, which evaluates seeded
# changes in scratch worktrees outside /repo; such runs write their evidence and replays under VERIF_OUT (never /verif).
REPO = os.environ.get('VERIF_REPO', '/repo').rstrip('/')
OUT = os.environ.get('VERIF_OUT', ROOT) if REPO != '/repo' else ROOT
if REPO != '/repo':
    sys.path.insert(0, REPO)


def case_key(case):
    return json.dumps(case, sort_keys=True, default=str)


def h8(s):
    return hashlib.sha256(s.encode()).hexdigest()[:16]


def repo_state():
    try:
        head = subprocess.run(['git', '-C', REPO, 'rev-parse', 'HEAD'], capture_output=True, text=True).stdout.strip()
        diff = subprocess.run(['git', '-C', REPO, 'diff', 'HEAD', '--', 'scikit_tt'], capture_output=True, text=True).stdout
        return {'head': head, 'worktree_diff_sha': hashlib.sha256(diff.encode()).hexdigest()[:16] if diff else None}
    except Exception as e:  # pragma: no cover
        return {'error': repr(e)}


def load_known(pid):
    path = os.path.join(ROOT, 'known_findings.json')
    if not os.path.exists(path):
        return {}
    data = json.load(open(path))
    return {f['key']: f for f in data.get('findings', []) if f.get('property') == pid and f.get('status') == 'open'}


_MOD = None
_SEED = 0


def _init(modname, seed):
    global _MOD, _SEED
    import warnings
    warnings.filterwarnings('ignore')
    try:   # a runaway case must fail loudly (MemoryError in that case) instead of getting the worker OOM-killed
        import resource
        lim = int(float(os.environ.get('VERIF_WORKER_MEM_GB', '6')) * 2 ** 30)
        resource.setrlimit(resource.RLIMIT_AS, (lim, lim))
    except Exception:
        pass
    _MOD = importlib.import_module(modname)
    _SEED = seed


def _run_one(case):
    from vt.core import R
    try:
        r = _MOD.run_case(case, _SEED)
    except Exception as e:  # a harness error is never silently a pass
        r = R(case)
        r.fail('harness:exception:%s' % type(e).__name__, traceback.format_exc()[-1500:])
    return r


def _work(ichunk):
    idx, chunk = ichunk
    out = {'n': 0, 'checks': 0, 'nt': set(), 'outcomes': collections.Counter(), 'fails': [], 'skipped': 0,
           'extra': collections.Counter(), 'idx': idx, 'pid': os.getpid(), 't0': time.time()}
    for pos, case in enumerate(chunk):
        r = _run_one(case)
        out['n'] += 1
        out['checks'] += r.checks
        out['skipped'] += r.skipped
        out['outcomes'][r.outcome] += 1
        out['extra'].update(r.extra)
        if r.nontrivial:
            out['nt'].add(h8(case_key(case)))
        if r.fails:
            r2 = _run_one(case)
            nondet = sorted(k for k, _ in r.fails) != sorted(k for k, _ in r2.fails)
            seen = set()
            for k, m in r.fails:
                if k in seen:
                    continue
                seen.add(k)
                out['fails'].append((k, m, case, nondet, (idx, pos)))
    return out


def _fresh_child(conn, modname, seed, seq):
    try:
        _init(modname, seed)
        r = None
        for c in seq:
            r = _run_one(c)
        seen, res = set(), []
        for k, m in (r.fails if r is not None else []):
            if k not in seen:
                seen.add(k); res.append((k, m))
        conn.send(res)
    except BaseException as e:
        conn.send([('harness:fresh-process:%s' % type(e).__name__, repr(e))])
    finally:
        conn.close()


def fresh_run(modname, seed, seq):
    """executes the cases of seq, in order, in a NEW process forked from the coordinator (which has never called the library)
    and returns the failures of the last one"""
    ctx = mp.get_context('fork')
    a, b = ctx.Pipe(duplex=False)
    p = ctx.Process(target=_fresh_child, args=(b, modname, seed, seq))
    p.start(); b.close()
    try:
        res = a.recv()
    except EOFError:
        res = [('harness:fresh-process:died', 'the fresh process ended without a result')]
    p.join()
    return res


def chunks(it, n):
    it = iter(it)
    while True:
        c = list(itertools.islice(it, n))
        if not c:
            return
        yield c


def main(argv=None):
    ap = argparse.ArgumentParser()
    ap.add_argument('pid')
    ap.add_argument('--tier', default=os.environ.get('VERIF_TIER', 'quick'))
    ap.add_argument('--replay')
    ap.add_argument('--jobs', type=int, default=int(os.environ.get('VERIF_JOBS', '16')))
    ap.add_argument('--limit', type=int, default=0, help='debug: only the first N cases (evidence says so)')
    a = ap.parse_args(argv)
    pid = a.pid.upper()
    tier = a.tier if a.tier in ('quick', 'thorough') else 'quick'
    seed = int(os.environ.get('VERIF_SEED', '0') or 0)
    budget = float(os.environ.get('VERIF_BUDGET_S', '0') or 0)
    modname = 'vt.props.' + pid.lower()
    sys.path.insert(0, ROOT)
    t0 = time.time()
    import scikit_tt
    if not os.path.realpath(scikit_tt.__file__).startswith(REPO + '/'):
        print('ERROR scikit_tt imported from %s, not %s' % (scikit_tt.__file__, REPO))
        return 2
    mod = importlib.import_module(modname)
    known = load_known(pid)

    if a.replay:
        data = json.load(open(a.replay))
        _init(modname, data.get('seed', seed))
        case = dict(data['case'])
        hist = case.pop('_after_call_history', None)
        if hist:
            # the failure needs the calls the worker had made before: regenerate those cases and execute them first
            csz = hist['chunk_size']
            need = set(hist['chunks'])
            got = {}
            for ci, ch in enumerate(chunks(mod.cases(data.get('tier', tier)), csz)):
                if ci in need:
                    got[ci] = ch
                if len(got) == len(need):
                    break
            for i in hist['chunks'][:-1]:
                for x in got[i]:
                    _run_one(x)
            for x in got[hist['chunks'][-1]][:hist['position_in_last_chunk']]:
                _run_one(x)
        r = _run_one(case)
        bad = 0
        for k, m in r.fails:
            if k in known:
                print('KNOWN-FINDING: property=%s %s [%s]' % (pid, known[k]['what'], k))
            else:
                bad += 1
                print('VIOLATION property=%s replay=%s' % (pid, a.replay))
                print('  key=%s\n  %s' % (k, m))
        if not r.fails:
            print('replay ok: %d oracle comparisons, outcome=%s' % (r.checks, r.outcome))
        return 1 if bad else 0

    fails, nondet_any = [], False
    coverage = {}
    if hasattr(mod, 'explore'):
        try:
            res = mod.explore(tier, seed, a.jobs)
        except Exception as e:
            print('ERROR worker pool failed (%r): the run is incomplete and nothing it found is reported as a verdict' % (e,))
            return 2
        coverage = res['coverage']
        fails = [(k, m, c, False, None) for (k, m, c) in res['fails']]
        exhaustive = coverage.get('exhaustive', True)
    else:
        n = checks = skipped = 0
        nt = set()
        outcomes = collections.Counter()
        extra = collections.Counter()
        samples = []
        gen = mod.cases(tier)
        if a.limit:
            gen = itertools.islice(gen, a.limit)
        csize = getattr(mod, 'CHUNK', {}).get(tier, 40) if isinstance(getattr(mod, 'CHUNK', None), dict) else getattr(mod, 'CHUNK', 40)
        total_generated = 0
        exhaustive = not a.limit
        ctx = mp.get_context('fork')

        def feeder():
            nonlocal total_generated, exhaustive
            for ci, c in enumerate(chunks(gen, csize)):
                if budget and time.time() - t0 > budget:
                    exhaustive = False
                    return
                if total_generated < 3:
                    samples.extend(c[:3 - total_generated])
                elif total_generated // 997 != (total_generated + len(c)) // 997 and len(samples) < 12:
                    samples.append(c[0])
                feeder.last = c[-1]
                total_generated += len(c)
                yield (ci, c)
        feeder.last = None
        chunk_log = {}
        def results():
            if a.jobs <= 1:
                _init(modname, seed)
                for c in feeder():
                    yield _work(c)
                return
            # bounded window of futures; a worker that dies abruptly raises BrokenProcessPool instead of hanging
            import concurrent.futures as cf
            with cf.ProcessPoolExecutor(a.jobs, mp_context=ctx, initializer=_init, initargs=(modname, seed)) as ex:
                pending = set()
                it = feeder()
                done_feeding = False
                while True:
                    while not done_feeding and len(pending) < 4 * a.jobs:
                        try:
                            pending.add(ex.submit(_work, next(it)))
                        except StopIteration:
                            done_feeding = True
                    if not pending:
                        break
                    done, pending = cf.wait(pending, return_when=cf.FIRST_COMPLETED)
                    for f in done:
                        yield f.result()
        try:
            for out in results():
                n += out['n']; checks += out['checks']; skipped += out['skipped']
                nt |= out['nt']; outcomes.update(out['outcomes']); extra.update(out['extra'])
                fails.extend(out['fails'])
                chunk_log[out['idx']] = (out['pid'], out['t0'])
        except Exception as e:
            print('ERROR worker pool failed (%r): the run is incomplete and nothing it found is reported as a verdict' % (e,))
            return 2
        if feeder.last is not None:
            samples.append(feeder.last)
        coverage = {
            'evaluations': n,
            'distinct_nontrivial': len(nt),
            'oracle_comparisons': checks,
            'rule': mod.RULE,
            'samples': samples,
            'exhaustive': bool(exhaustive),
            'outcome_classes': dict(outcomes.most_common(40)),
            'distinct_outcomes': len(outcomes),
            'skipped_ill_conditioned': skipped,
        }
        if extra:
            coverage['counters'] = dict(extra)
        if hasattr(mod, 'space'):
            coverage['space'] = mod.space(tier)
        if a.limit:
            coverage['debug_limit'] = a.limit
        if budget:
            coverage['budget_s'] = budget

    # classify failures
    # failing cases whose re-execution in the same worker gave different failures: decide in fresh processes whether the
    # library carries state across calls (reproducible from a clean process, or reproducible after the same call history)
    # or the harness is nondeterministic (exit 2)
    nd_cases = collections.OrderedDict()
    for k, m, c, nd, where in fails:
        if nd:
            nd_cases.setdefault(case_key(c), (c, where))
    resolved = {}
    if nd_cases and not hasattr(mod, 'explore'):
        t_res = time.time()
        n_hist = 0
        for ck, (c, where) in list(nd_cases.items())[:8]:
            f1 = fresh_run(modname, seed, [c]); f2 = fresh_run(modname, seed, [c])
            if f1 and [k for k, _ in f1] == [k for k, _ in f2] and not any(k.startswith('harness:') for k, _ in f1):
                resolved[ck] = ('clean', f1, None)
                continue
            # not reproducible from a clean process: replay what the worker had executed before (its chunks, in order);
            # bounded: at most two such replays and about three minutes
            if where is None or where[0] not in chunk_log or n_hist >= 2 or time.time() - t_res > 180:
                continue
            n_hist += 1
            wpid, wt0 = chunk_log[where[0]]
            mine = sorted((t, i) for i, (p_, t) in chunk_log.items() if p_ == wpid and t <= wt0)
            want_idx = [i for _, i in mine]
            g2 = mod.cases(tier)
            if a.limit:
                g2 = itertools.islice(g2, a.limit)
            got = {}
            for ci, ch in enumerate(chunks(g2, csize)):
                if ci in want_idx:
                    got[ci] = ch
                if len(got) == len(want_idx):
                    break
            seq = [x for i in want_idx[:-1] for x in got.get(i, [])] + got.get(where[0], [])[:where[1] + 1]
            h1 = fresh_run(modname, seed, seq); h2 = fresh_run(modname, seed, seq)
            if h1 and [k for k, _ in h1] == [k for k, _ in h2] and not any(k.startswith('harness:') for k, _ in h1):
                resolved[ck] = ('history', h1, {'chunks': want_idx, 'chunk_size': csize, 'position_in_last_chunk': where[1], 'preceding_cases': len(seq) - 1})
    by_key = collections.OrderedDict()
    done_nd = set()
    for k, m, c, nd, where in fails:
        ck = case_key(c)
        if nd and ck in resolved:
            if ck in done_nd:
                continue
            done_nd.add(ck)
            kind, fl, hist = resolved[ck]
            for k2, m2 in fl:
                if kind == 'clean':
                    by_key.setdefault(k2, []).append((m2 + '\n(reproduced twice in fresh processes; executing the case again in the same process gives a different outcome: the library keeps state across calls)', c))
                else:
                    cc = dict(c); cc['_after_call_history'] = hist
                    by_key.setdefault('after-earlier-calls:' + k2, []).append((m2 + '\n(passes in a fresh process; fails, reproducibly, after the %d cases the worker had executed before it: the library keeps state across calls)' % hist['preceding_cases'], cc))
            continue
        nondet_any |= nd
        if nd:
            continue          # not reproducible in any way: never a verdict
        by_key.setdefault(k, []).append((m, c))
    os.makedirs(os.path.join(OUT, 'replays', pid), exist_ok=True)
    new_keys, known_hit = [], []
    for k, lst in by_key.items():
        lst.sort(key=lambda mc: len(case_key(mc[1])))
        m, c = lst[0]
        if k in known:
            known_hit.append(k)
            print('KNOWN-FINDING: property=%s %s [%s; %d case(s) this run]' % (pid, known[k]['what'], k, len(lst)))
            continue
        path = os.path.join(OUT, 'replays', pid, '%s.json' % h8(k + case_key(c)))
        json.dump({'property': pid, 'tier': tier, 'seed': seed, 'key': k, 'message': m, 'case': c,
                   'cases_with_this_key': len(lst)}, open(path, 'w'), indent=1, default=str)
        new_keys.append(k)
        if len(new_keys) <= 25:
            print('VIOLATION property=%s replay=%s' % (pid, path))
            print('  key=%s cases=%d\n  %s' % (k, len(lst), m.replace('\n', '\n  ')[:900]))
    if len(new_keys) > 25:
        print('... %d further violation keys (replays written)' % (len(new_keys) - 25))

    wall = time.time() - t0
    coverage['repo'] = repo_state()
    coverage['known_findings_hit'] = known_hit
    ev = {
        'property_id': pid, 'tier': tier, 'seed': seed, 'level': mod.LEVEL, 'coverage': coverage,
        'assumptions': list(getattr(mod, 'ASSUMPTIONS', [])), 'wall_s': round(wall, 2),
        'violations': len(new_keys),
    }
    os.makedirs(os.path.join(OUT, 'evidence'), exist_ok=True)
    json.dump(ev, open(os.path.join(OUT, 'evidence', pid + '.json'), 'w'), indent=1, default=str)
    summ = {k: coverage.get(k) for k in ('evaluations', 'distinct_nontrivial', 'oracle_comparisons', 'states',
                                         'transitions', 'traces_validated_against_impl', 'distinct_outcomes',
                                         'exhaustive') if k in coverage}
    print('%s tier=%s seed=%d %s wall=%.1fs violations=%d known=%d' % (pid, tier, seed, summ, wall, len(new_keys), len(known_hit)))
    if nondet_any:
        print('NONDETERMINISM: %s failing case(s) did not reproduce identically on re-execution, neither in the same worker nor in fresh '
              'processes; their failures are not reported as verdicts' % ('some' if new_keys else 'the'))
        if not new_keys:
            return 2
    return 1 if new_keys else 0


if __name__ == '__main__':
    sys.exit(main())
