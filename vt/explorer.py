"""Explicit-state explorer over API-call histories on live objects (level-synchronous BFS, replay-from-scratch).

A *system* is a pool of live TT objects plus harness-held NumPy inputs. A *transition* applies one operation of the
alphabet to operands chosen from the pool. States are deduplicated by a canonical key (shapes, dtypes, layout flags and
the partition of all cores by shared buffers); values are excluded (see DESIGN.md, C06, for the argument).
After every transition the invariants are evaluated on every live object against the shadow (pure NumPy snapshots).
"""
import itertools, collections, time, traceback, sys, hashlib, json, signal
import numpy as np
import multiprocessing as mp
from vt.core import dense_cores, meta_problem


DENSE_CAP = 1 << 14
RANK_CAP = 8
CPU_LIMIT_S = 20.0


class CpuTimeout(Exception):
    pass


def _cpu_timeout(signum, frame):
    raise CpuTimeout('more than %g s of CPU time' % CPU_LIMIT_S)



def small(t):
    """dense size of a tensor train small enough to be materialised (operand tuples with repetition can double the order)"""
    try:
        n = 1
        for a, b in zip(t.row_dims, t.col_dims):
            n *= int(a) * int(b)
            if n > DENSE_CAP:
                return False
        if n * int(t.ranks[0]) * int(t.ranks[-1]) > DENSE_CAP:
            return False
        # products and sums multiply / add TT ranks: keep them small enough that one more operation (operator product, HOD series
        # of order 4: rank^3) still fits in memory
        return max(int(x) for x in t.ranks) <= RANK_CAP
    except Exception:
        return True


class Shadow:
    __slots__ = ('value', 'rows', 'cols', 'ranks', 'origin', 'dtypes')

    def __init__(self, t, origin):
        self.value = dense_cores(t.cores)
        self.rows = list(t.row_dims); self.cols = list(t.col_dims); self.ranks = list(t.ranks)
        self.origin = origin


class System:
    def __init__(self, objs, tags, env=None):
        self.objs = list(objs)
        self.tags = list(tags)               # per object: set of strings ('hpd', ...)
        self.n_init = len(objs)
        self.env = env or {}
        self.env0 = {k: np.array(v, copy=True) for k, v in self.env.items() if isinstance(v, np.ndarray)}
        self.envl0 = {k: json.dumps(v) for k, v in self.env.items() if isinstance(v, list)}
        self.shadows = [Shadow(t, 'initial') for t in self.objs]

    def refresh(self, i, origin=None):
        self.shadows[i] = Shadow(self.objs[i], origin or self.shadows[i].origin)

    def add(self, t, origin, cap):
        for o in self.objs:
            if o is t:
                return False
        if meta_problem(t) is None and not small(t):
            return False                         # too large to shadow densely: does not join the pool
        self.objs.append(t); self.tags.append({'result'}); self.shadows.append(Shadow(t, origin))
        while len(self.objs) > cap:
            del self.objs[self.n_init]; del self.tags[self.n_init]; del self.shadows[self.n_init]
        return True


def canon(sys_):
    """canonical state: per slot metadata + layout flags of every core + partition of cores by shared memory"""
    per = []
    allc = []
    for t in sys_.objs:
        cs = []
        for c in t.cores:
            cs.append((c.dtype.char, c.flags['C_CONTIGUOUS'], c.flags['F_CONTIGUOUS'], c.flags['OWNDATA'], c.shape))
            allc.append(c)
        per.append((tuple(t.row_dims), tuple(t.col_dims), tuple(t.ranks), tuple(cs)))
    n = len(allc)
    grp = list(range(n))
    for i in range(n):
        for j in range(i + 1, n):
            if grp[j] != grp[i] and np.may_share_memory(allc[i], allc[j]):
                old = grp[j]
                for k in range(n):
                    if grp[k] == old:
                        grp[k] = grp[i]
    # identical core *objects* in two slots matter too (list aliasing)
    ident = tuple(tuple(i for i in range(n) if allc[i] is allc[j]) for j in range(n))
    return (tuple(per), tuple(grp), ident)


def check_invariants(sys_, target, mode, results, opname, tol=1e-9):
    """returns list of (key, msg). target: slot index of the documented in-place target or None.
    mode: 'preserve' (value must be unchanged), 'free' (value may change; metadata must be consistent)"""
    fails = []
    for i, (t, sh) in enumerate(zip(sys_.objs, sys_.shadows)):
        mp_ = meta_problem(t)
        if mp_ is not None:
            fails.append(('I3:pool-object-inconsistent:after=%s:origin=%s' % (opname, sh.origin), 'slot %d: %s' % (i, mp_)))
            continue
        if i == target and mode == 'free':
            continue
        if i != target and (list(t.row_dims) != sh.rows or list(t.col_dims) != sh.cols or list(t.ranks) != sh.ranks):
            fails.append(('I1:metadata-changed:after=%s:changed-origin=%s' % (opname, sh.origin),
                          'slot %d dims/ranks %s %s %s were %s %s %s' % (i, t.row_dims, t.col_dims, t.ranks, sh.rows, sh.cols, sh.ranks)))
            continue
        try:
            v = dense_cores(t.cores)
            ok = v.shape == sh.value.shape and np.all(np.isfinite(v)) and \
                np.linalg.norm((v - sh.value).ravel()) <= tol * max(1.0, np.linalg.norm(sh.value.ravel()))
        except Exception as e:
            ok = False
        if not ok:
            torig = sys_.shadows[target].origin if target is not None and target < len(sys_.shadows) else '-'
            kind = 'I2:target-value' if i == target else 'I1:value-changed'
            fails.append(('%s:after=%s:changed-origin=%s:target-origin=%s' % (kind, opname, sh.origin, torig),
                          'slot %d (%s) dense value changed by %s' % (i, sh.origin, opname)))
    for j, t in enumerate(results):
        mp_ = meta_problem(t)
        if mp_ is not None:
            fails.append(('I3:result-inconsistent:%s' % opname, 'result %d: %s' % (j, mp_)))
    for k, v0 in sys_.env0.items():
        if not (sys_.env[k].shape == v0.shape and np.array_equal(sys_.env[k], v0)):
            fails.append(('I4:input-array-changed:%s:%s' % (opname, k), 'harness-held array %s changed' % k))
    for k, v0 in sys_.envl0.items():
        if json.dumps(sys_.env[k]) != v0:
            fails.append(('I4:input-list-changed:%s:%s' % (opname, k), 'harness-held list %s changed: %s -> %s' % (k, v0, json.dumps(sys_.env[k]))))
    return fails


def shared_slots(sys_):
    out = set()
    n = len(sys_.objs)
    for i in range(n):
        for j in range(i + 1, n):
            if any(a is b or np.may_share_memory(a, b) for a in sys_.objs[i].cores for b in sys_.objs[j].cores):
                out.add(i); out.add(j)
    return out


class Op:
    def __init__(self, name, arity, enabled, run, inplace=False, target=None, mode='preserve', base=None,
                 may_raise=False, consume=False, hands_back=None, always=False, oracle=None, prefix=None):
        self.name = name; self.arity = arity; self.enabled = enabled; self.run = run
        self.inplace = inplace; self.target = target; self.mode = mode
        self.may_raise = may_raise      # numerically conditioned routine: an exception disables the transition
        self.consume = consume          # overwrite=True variants that hand self's buffers to the results: self leaves the pool
        self.always = always            # exempt from the fresh-operand reduction (probes for hidden module-level state)
        self.oracle = oracle            # optional: dense value (dense_cores layout) the first result must have, by definition
        self.prefix = prefix            # optional: the same integrator call with fewer steps (run on fresh copies): its trajectory must be a prefix of the result (I9)
        self.hands_back = hands_back    # index of the argument that is documented to come back by identity as result 0 (the initial state heading a trajectory)
        self.base = base or name.split('(')[0]


def flatten_tts(res):
    from scikit_tt.tensor_train import TT
    out = []

    def rec(x, depth=0):
        if isinstance(x, TT):
            out.append(x)
        elif isinstance(x, (list, tuple)) and depth < 3:
            for y in x:
                rec(y, depth + 1)
    rec(res)
    return out


def _flat_values(res, out, depth=0):
    from scikit_tt.tensor_train import TT
    if isinstance(res, TT):
        out.append(('tt', dense_cores(res.cores) if (meta_problem(res) is None and small(res)) else None))
    elif isinstance(res, np.ndarray):
        out.append(('arr', np.array(res)))
    elif isinstance(res, (int, float, complex, np.number)):
        out.append(('num', np.asarray(res)))
    elif isinstance(res, (list, tuple)) and depth < 4:
        for x in res:
            _flat_values(x, out, depth + 1)


def recompute_check(model, sys_, op, objs, res):
    """I5: a value-level operation is a function of the VALUES of its operands — the same call on fresh, contiguous deep
    copies of the operands (different object identities, different memory layout, later point in the process history) must
    return the same values. Catches results that depend on memory layout (views, Fortran order), on object identity
    (memoisation) or on hidden state left by earlier calls."""
    from scikit_tt.tensor_train import TT
    try:
        fresh = [TT([np.array(c, order='C', copy=True) for c in o.cores]) for o in objs]
        np.random.seed(12345)
        res2 = op.run(sys_, *fresh)
    except Exception as e:
        return [('I5:recompute-raised:%s:%s' % (op.base, type(e).__name__), '%s on fresh copies of its operands raised %r' % (op.name, e))]
    a, b = [], []
    _flat_values(res, a); _flat_values(res2, b)
    if len(a) != len(b):
        return [('I5:recompute-differs:%s' % op.base, '%s returned %d values, %d on fresh copies of the same operands' % (op.name, len(a), len(b)))]
    for (ka, va), (kb, vb) in zip(a, b):
        if va is None or vb is None:
            continue
        if ka != kb or va.shape != vb.shape:
            return [('I5:recompute-differs:%s' % op.base, '%s: result kind/shape %s %s vs %s %s on fresh copies' % (op.name, ka, va.shape, kb, vb.shape))]
        if va.size and np.all(np.isfinite(va)) and np.all(np.isfinite(vb)):
            sc = max(1.0, float(np.linalg.norm(vb.ravel())))
            if np.linalg.norm((va - vb).ravel()) > 1e-8 * sc:
                return [('I5:recompute-differs:%s' % op.base,
                         '%s on the live operands differs from the same call on fresh contiguous copies of them by %.3e (layout, identity or hidden state dependence)'
                         % (op.name, np.linalg.norm((va - vb).ravel())))]
    return []


def prefix_check(model, sys_, op, objs, res):
    """I9: a time stepper's trajectory is consistent with shorter runs -- entry k of the n-step trajectory equals entry k of
    the k-step trajectory computed from fresh copies of the same operands (differential oracle, no hand-written expected value).
    Catches trajectories whose earlier entries are rewritten by later steps (a working state appended without a copy)."""
    from scikit_tt.tensor_train import TT
    try:
        fresh = [TT([np.array(c, order='C', copy=True) for c in o.cores]) for o in objs]
        np.random.seed(12345)
        res2 = op.prefix(sys_, *fresh)
    except Exception as e:
        return [('I9:prefix-run-raised:%s:%s' % (op.base, type(e).__name__), 'the shorter run of %s on fresh copies raised %r' % (op.name, e))]
    a, b = flatten_tts(res), flatten_tts(res2)
    if len(b) > len(a):
        return [('I9:trajectory-prefix:%s' % op.base, '%s: the shorter run returned more states (%d) than the longer one (%d)' % (op.name, len(b), len(a)))]
    for k_, (ta, tb) in enumerate(zip(a, b)):
        if meta_problem(ta) is not None or meta_problem(tb) is not None or not small(ta) or not small(tb):
            continue
        va, vb = dense_cores(ta.cores), dense_cores(tb.cores)
        if va.shape != vb.shape or not (np.all(np.isfinite(va)) and np.all(np.isfinite(vb))):
            continue
        sc = max(1.0, float(np.linalg.norm(vb.ravel())))
        if np.linalg.norm((va - vb).ravel()) > 1e-8 * sc:
            return [('I9:trajectory-prefix:%s' % op.base,
                     '%s: state %d of the trajectory differs from state %d of the shorter run on the same operands by %.3e (an earlier entry was rewritten by a later step)'
                     % (op.name, k_, k_, np.linalg.norm((va - vb).ravel())))]
    return []


class Model:
    """what a property module provides"""
    pools = {}      # name -> builder(seed) -> System
    ops = []        # list[Op]
    cap = 5         # pool capacity
    max_join = 2    # how many result objects join the pool per transition (first and last)


def apply_transition(model, sys_, tr, check=True):
    """tr = (op index, slots tuple). Returns (fails, joined)"""
    op = model.ops[tr[0]]
    slots = tr[1]
    objs = [sys_.objs[s] for s in slots]
    tgt = slots[op.target] if op.target is not None else None
    fails = []
    alias_ref = None
    if check and op.inplace and len(set(slots)) < len(slots) and not op.consume:
        # I7 (aliased in-place call): reference = the same call on pairwise distinct copies of the operands
        try:
            from scikit_tt.tensor_train import TT
            fr = [TT([np.array(c, copy=True) for c in o.cores]) for o in objs]
            np.random.seed(12345)
            op.run(sys_, *fr)
            alias_ref = fr[op.target] if meta_problem(fr[op.target]) is None else None
        except Exception:
            alias_ref = None
    try:
        np.random.seed(12345)
        guard = op.may_raise and check
        if guard:
            # CPU-time guard (process virtual time): numerically conditioned routines can take minutes on operands produced by
            # earlier transitions (e.g. Krylov propagation of an unnormalised state makes expm_multiply take ~1e6 scaling steps);
            # such a call is disabled like a raising one, its arguments are still checked. The guard applies to the FIRST execution
            # of a transition only: a transition that is part of a recorded history has completed once, and its replay (check=False)
            # runs to completion however long it takes -- CPU time near the limit varies a little with machine load, and a replay
            # that timed out where the first execution had not would look like a diverging history.
            signal.signal(signal.SIGVTALRM, _cpu_timeout)
            signal.setitimer(signal.ITIMER_VIRTUAL, CPU_LIMIT_S)
        try:
            res = op.run(sys_, *objs)
        finally:
            if guard:
                signal.setitimer(signal.ITIMER_VIRTUAL, 0)
    except Exception as e:
        tb = traceback.extract_tb(sys.exc_info()[2])
        site = ''
        for fr in reversed(tb):
            if '/repo/' in fr.filename:
                site = '%s:%s:%d' % (fr.filename.split('/repo/')[1], fr.name, fr.lineno)
                break
        zero_operand = any(not np.any(sys_.shadows[s_].value) for s_ in slots if s_ < len(sys_.shadows))
        if op.may_raise or zero_operand:
            # (D8: relative cuts and normalisations are undefined on the exactly zero tensor, which a - a produces)
            # not a failure of this property, but even a failing routine must not have touched its arguments
            fails = check_invariants(sys_, tgt, op.mode, [], op.base)
            return fails, -1
        return [('raise:%s:%s' % (op.base, type(e).__name__), '%s raised %r at %s' % (op.name, e, site))], 0
    results = flatten_tts(res)
    if check:
        fails = check_invariants(sys_, tgt, op.mode, results, op.base)
        if not fails and alias_ref is not None and meta_problem(sys_.objs[tgt]) is None and small(sys_.objs[tgt]) and small(alias_ref):
            va, vb = dense_cores(sys_.objs[tgt].cores), dense_cores(alias_ref.cores)
            if va.shape != vb.shape or np.linalg.norm((va - vb).ravel()) > 1e-8 * max(1.0, float(np.linalg.norm(vb.ravel()))):
                fails = [('I7:aliased-inplace-differs:%s' % op.base, '%s with one object in two argument positions gives a different target than with distinct copies' % op.name)]
        if not fails and not op.inplace:
            # I6: an operation documented to return a new object must not hand back a live object (an operand) by identity,
            # nor the same object twice; the initial state heading a returned trajectory is the one documented exception
            for k_, t in enumerate(results):
                if k_ == 0 and op.hands_back is not None and t is objs[op.hands_back]:
                    continue
                if any(t is o for o in sys_.objs):
                    fails = [('identity:%s:result-is-a-live-operand' % op.base, '%s returned one of the live objects itself (not a new object)' % op.name)]
                    break
                if any(t is u for u in results[:k_]):
                    fails = [('identity:%s:same-object-returned-twice' % op.base, '%s returned the same object in two positions' % op.name)]
                    break
        if not fails and op.oracle is not None and results and meta_problem(results[0]) is None:
            # I8: a constructor returns its defining value, whatever happened to earlier results of the same constructor
            want = op.oracle(sys_, *objs)
            got = dense_cores(results[0].cores)
            if got.shape != want.shape or np.linalg.norm((got - want).ravel()) > 1e-12 * max(1.0, float(np.linalg.norm(want.ravel()))):
                fails = [('I8:constructor-value:%s' % op.base, '%s does not return its defining tensor at this point of the history' % op.name)]
        if not fails and not op.inplace and getattr(model, 'recompute', True):
            fails = recompute_check(model, sys_, op, objs, res)
        if not fails and op.prefix is not None:
            fails = prefix_check(model, sys_, op, objs, res)
    if not fails and tgt is not None and not op.consume and meta_problem(sys_.objs[tgt]) is None and not small(sys_.objs[tgt]):
        # an in-place call grew its target beyond what can be shadowed densely: the target leaves the pool
        del sys_.objs[tgt]; del sys_.tags[tgt]; del sys_.shadows[tgt]
        if tgt < sys_.n_init:
            sys_.n_init -= 1
        tgt = None
    if tgt is not None and not fails and op.mode == 'free':
        sys_.tags[tgt] = {'result'}          # the documented target now holds a different tensor: its role tags ('hpd', ...) are void
    if tgt is not None and not fails:
        sys_.refresh(tgt, sys_.shadows[tgt].origin + '>' + op.base if sys_.shadows[tgt].origin.count('>') < 1 else None)
    joined = 0
    if not fails and op.consume and tgt is not None:
        del sys_.objs[tgt]; del sys_.tags[tgt]; del sys_.shadows[tgt]
        if tgt < sys_.n_init:
            sys_.n_init -= 1
    if not fails:
        new = [t for t in results if not any(t is o for o in sys_.objs)]
        pick = new[:1] + (new[-1:] if len(new) > 1 else [])
        for t in pick[:model.max_join]:
            joined += sys_.add(t, op.base, model.cap)
    return fails, joined


def enabled_transitions(model, sys_, inplace_left):
    n = len(sys_.objs)
    for oi, op in enumerate(model.ops):
        if op.inplace and inplace_left <= 0:
            continue
        # operand tuples may repeat a slot: the SAME object passed in two argument positions (aliased inputs)
        for slots in itertools.product(range(n), repeat=op.arity):
            try:
                if op.enabled(sys_, *slots):
                    yield (oi, tuple(slots))
            except Exception:
                continue


def replay(model, pool, seed, history):
    sys_ = model.pools[pool](seed)
    sys_.fresh_ids = None
    for n_, tr in enumerate(history):
        if n_ == len(history) - 1:
            keep_alive = list(sys_.objs)
            before = {id(o) for o in keep_alive}
            tgt_obj = sys_.objs[tr[1][model.ops[tr[0]].target]] if model.ops[tr[0]].target is not None else None
        fails, _ = apply_transition(model, sys_, tr, check=False)
        if fails:
            raise RuntimeError('replay diverged: %s' % (fails,))
        if n_ == len(history) - 1:
            # objects created or (documented target) modified by the LAST transition of the history
            sys_.fresh_ids = {id(o) for o in sys_.objs if id(o) not in before} | ({id(tgt_obj)} if tgt_obj is not None else set())
    # shadows := current values (every prefix was verified when it was first generated)
    for i in range(len(sys_.objs)):
        sys_.refresh(i)
    return sys_


_MODEL = None


def _worker_init():
    try:   # a runaway transition must fail with MemoryError in that transition instead of getting the worker OOM-killed
        import resource, os
        lim = int(float(os.environ.get('VERIF_WORKER_MEM_GB', '6')) * 2 ** 30)
        resource.setrlimit(resource.RLIMIT_AS, (lim, lim))
    except Exception:
        pass


def _expand(args):
    pool, seed, history, inplace_used, bound_inplace, last_level, only_inplace = args[:7]
    part = args[7] if len(args) > 7 else (0, 1)
    expect = args[8] if len(args) > 8 else None
    fresh_only = True          # every level below the first: only operand tuples that touch the fresh part of the state
    only_inplace = only_inplace is True
    model = _MODEL
    out = {'succ': [], 'fails': [], 'transitions': 0, 'replays': 0, 'raised': 0}
    try:
        sys_ = replay(model, pool, seed, history); out['replays'] += 1
        got = hashlib.blake2b(repr(canon(sys_)).encode(), digest_size=16).digest() if expect is not None else None
    except Exception as e:
        sys_, got = None, repr(e)
    if expect is not None and got != expect:
        # the same history, replayed from scratch in this process, no longer reaches the state it reached when it was first
        # executed: something outside the operands (module-level state left behind by other calls) decides the outcome
        if part[0] == 0:
            nm = model.ops[history[-1][0]].base if history else 'initial'
            out['fails'].append(('replay-diverged:%s' % nm, 'replaying the history gives a different state than its first execution (hidden state across calls)',
                                 {'pool': pool, 'history': [list(map(_ser, h)) for h in history], 'ops': [model.ops[h[0]].name for h in history]}))
        return out
    trs = list(enabled_transitions(model, sys_, bound_inplace - inplace_used))
    if only_inplace:
        # last level, reduced: in-place operations on targets whose buffers are reachable from another live object
        # (an in-place call whose footprint is private cannot change any other object)
        shared = shared_slots(sys_)
        trs = [tr for tr in trs if model.ops[tr[0]].inplace and tr[1][model.ops[tr[0]].target] in shared]
    if fresh_only and sys_.fresh_ids is not None:
        # sleep-set style reduction: a transition all of whose operands were neither created nor modified by the last
        # transition of the history, and share no buffer with such an object, was already executed with identical operands
        # from the parent state; only transitions that touch the fresh part of the state are new
        fresh = {i for i, o in enumerate(sys_.objs) if id(o) in sys_.fresh_ids}
        grow = True
        while grow:
            grow = False
            for i in range(len(sys_.objs)):
                if i not in fresh and any(a is b or np.may_share_memory(a, b) for j in fresh for a in sys_.objs[i].cores for b in sys_.objs[j].cores):
                    fresh.add(i); grow = True
        trs = [tr for tr in trs if model.ops[tr[0]].always or any(s_ in fresh for s_ in tr[1])]
    base_digest = hashlib.blake2b(repr(canon(sys_)).encode(), digest_size=16).digest()
    trs = trs[part[0]::part[1]]          # the transitions of one state may be spread over several tasks (load balance)
    dirty = False
    for tr in trs:
        op = model.ops[tr[0]]
        if op.inplace or dirty:
            try:
                sys_ = replay(model, pool, seed, history); out['replays'] += 1
                again = hashlib.blake2b(repr(canon(sys_)).encode(), digest_size=16).digest()
            except Exception as e:
                again = repr(e)
            if again != base_digest:
                nm = model.ops[history[-1][0]].base if history else 'initial'
                out['fails'].append(('replay-diverged:%s' % nm, 'replaying the history a second time in the same process gives a different state (hidden state across calls)',
                                     {'pool': pool, 'history': [list(map(_ser, h)) for h in history], 'ops': [model.ops[h[0]].name for h in history]}))
                return out
            dirty = False
        n_before = len(sys_.objs)
        snap_lists = (list(sys_.objs), list(sys_.tags), list(sys_.shadows), sys_.n_init)
        fails, joined = apply_transition(model, sys_, tr)
        out['transitions'] += 1
        if joined < 0 and not fails:      # routine raised: transition disabled, system verified intact
            out['raised'] += 1
            continue
        if fails:
            for k, m in fails:
                out['fails'].append((k, m, {'pool': pool, 'history': [list(map(_ser, h)) for h in history] + [list(map(_ser, tr))],
                                            'ops': [model.ops[h[0]].name for h in history] + [op.name]}))
            dirty = True
            continue
        if not last_level:
            ck = canon(sys_)
            # only digests travel back to the coordinator (the canonical keys are large nested tuples)
            out['succ'].append((tr, (hashlib.blake2b(repr(ck).encode(), digest_size=16).digest(),
                                     hashlib.blake2b(repr(ck[1:]).encode(), digest_size=8).digest()), inplace_used + (1 if op.inplace else 0)))
        if op.inplace:
            dirty = True
        else:
            # value op verified non-mutating: drop the results again and continue on the same live system
            sys_.objs, sys_.tags, sys_.shadows, sys_.n_init = snap_lists
    return out


def _ser(x):
    return list(x) if isinstance(x, tuple) else x


def explore(model, tier, seed, jobs, depth, bound_inplace, pools=None, last_inplace_only=False):
    """level-synchronous BFS; all initial pools advance together so that one worker pool serves the whole level"""
    global _MODEL
    _MODEL = model
    t0 = time.time()
    ctx = mp.get_context('fork')
    names = list(pools or list(model.pools))
    stats = {'states': 0, 'transitions': 0, 'replays': 0, 'raised': 0, 'per_depth': {}, 'partitions': set(), 'per_pool': {}}
    fails = []
    samples = []
    seen = {}
    frontier = []
    for pool in names:
        seen[pool] = {(hashlib.blake2b(repr(canon(model.pools[pool](seed))).encode(), digest_size=16).digest(), None)[0]}
        frontier.append((pool, [], 0, None))
        stats['per_pool'][pool] = {'states': 1, 'transitions': 0}
    import concurrent.futures as cf
    with cf.ProcessPoolExecutor(jobs, mp_context=ctx, initializer=_worker_init) as p:      # a worker that dies raises BrokenProcessPool
        for lvl in range(1, depth + 1):
            last = lvl == depth
            # expensive pools (solvers, integrators) first, small chunks: the level ends when the slowest chunk does
            heavy = lambda pl: 0 if any(w in pl for w in ('solver', 'chain', 'markov', 'quantum', 'data', 'snap')) else 1
            frontier.sort(key=lambda x: heavy(x[0]))
            nparts = lambda pl: (4 * jobs if lvl == 1 else (4 if heavy(pl) == 0 and lvl == 2 else 1))
            args = [(pool, seed, h, iu, bound_inplace, last, last and last_inplace_only, (i_, nparts(pool)), dg) for pool, h, iu, dg in frontier for i_ in range(nparts(pool))]
            nxt = []
            new_per_pool = collections.Counter()
            for (a, out) in zip(args, p.map(_expand, args, chunksize=max(1, min(8, len(args) // (jobs * 16) or 1)))):
                pool = a[0]
                stats['transitions'] += out['transitions']; stats['replays'] += out['replays']; stats['raised'] += out['raised']
                stats['per_pool'][pool]['transitions'] += out['transitions']
                fails.extend(out['fails'])
                for tr, key, iu in out['succ']:
                    stats['partitions'].add(key[1])
                    if key[0] not in seen[pool]:
                        seen[pool].add(key[0])
                        nxt.append((pool, a[2] + [tr], iu, key[0]))
                        new_per_pool[pool] += 1
            stats['per_depth'][str(lvl)] = {'frontier_in': len(frontier), 'new_states': len(nxt), 'new_states_per_pool': dict(new_per_pool)}
            for pool in names:
                cand = [x for x in nxt if x[0] == pool]
                if cand and len(samples) < 3 * len(names):
                    h = cand[len(cand) // 2][1]
                    samples.append({'pool': pool, 'history': [model.ops[t[0]].name + str(list(t[1])) for t in h]})
            frontier = nxt
            if not frontier:
                break
    for pool in names:
        stats['per_pool'][pool]['states'] = len(seen[pool])
        stats['states'] += len(seen[pool])
    stats['wall'] = time.time() - t0
    stats['samples'] = samples[:16]
    stats['distinct_sharing_partitions'] = len(stats.pop('partitions'))
    return stats, fails
