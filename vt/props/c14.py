"""C14 — basis functions: partial/partial2/gradient/hessian are the derivatives of __call__; array evaluation."""
import itertools
import numpy as np
from vt.core import R

ID = 'C14'
LEVEL = 'exploration'
RULE = ('complete enumeration of family x parameter grid x ambient dimension {1,2,3} x coordinate index x (dimension given at '
        'construction | inferred at first call); every object is evaluated on a fixed 5^dim grid of points (spline knots '
        'avoided) in EVERY direction / direction pair: partial vs complex-step differentiation of __call__ (central '
        'differences for splines), partial2 vs complex-step of partial, gradient/hessian vs the assembled partials incl. zero '
        'entries for foreign coordinates, evaluation on a (dim x m) array vs point-by-point, documented NotImplementedError '
        'methods. Non-trivial: every case (distinct family/parameter/index points).')
ASSUMPTIONS = ['complex-step differentiation (h=1e-30) is exact to rounding for the analytic families', 'splines: central differences h=1e-5, tolerance 1e-6',
               'IndicatorFunction derivatives, partial2 of PeriodicGaussFunction and Bspline are documented as not implemented']
CHUNK = 16
GRID1 = [-1.3, -0.45, 0.1, 0.62, 1.4]


def space(tier):
    return {'families': ['Constant', 'Indicator', 'Identity', 'Monomial', 'Legendre', 'Sin', 'Cos', 'Gauss', 'PeriodicGauss', 'Bspline'],
            'dim': [1, 2, 3], 'points': '5^dim grid', 'Monomial': 'exponent 0-5 x prefactor {1,-2.5}', 'Legendre': 'degree 0-6 x domain {1,0.5,3}',
            'Sin/Cos alpha': [1, 0.5, -2, 3], 'Gauss': 'mean {0,0.7,-1.3} x variance {1,0.25,2}', 'Bspline': 'degree 1-3 x 2 knot vectors x every unit coefficient vector'}


def param_sets(tier):
    q = tier == 'quick'
    out = [('Constant', {}), ('Identity', {}), ('Indicator', {'a': -0.5, 'b': 0.7})]
    for e in range(6 if q else 9):
        for p in ((1, -2.5) if q else (1, -2.5, 0.3)):
            out.append(('Monomial', {'exponent': e, 'prefactor': p}))
    for dg in range(7 if q else 11):
        for dom in ((1.0, 0.5, 3.0) if q else (1.0, 0.5, 3.0, 2.0)):
            out.append(('Legendre', {'degree': dg, 'domain': dom}))
    for dg, dom in ((10, 100), (7, 1000), (12, 50)):
        out.append(('Legendre', {'degree': dg, 'domain': dom}))            # integer domains whose powers exceed 2**63
    for dg in ((15, 20, 30) if q else (12, 15, 20, 25, 30, 40)):
        out.append(('Legendre', {'degree': dg, 'domain': 1.0, 'value_only': True}))     # high degrees: evaluation only (stable recurrence vs expanded monomials)
    for al in ((1, 0.5, -2, 3) if q else (1, 0.5, -2, 3, 0.1, -7.5)):
        out.append(('Sin', {'alpha': al})); out.append(('Cos', {'alpha': al}))
    for mu in ((0, 0.7, -1.3) if q else (0, 0.7, -1.3, 2.5)):
        for var in ((1, 0.25, 2, 0.01, 0.001) if q else (1, 0.25, 2, 0.05, 0.01, 0.001)):          # narrow Gaussians: the standard deviation, not the variance, sets the length scale
            out.append(('Gauss', {'mean': mu, 'variance': var})); out.append(('PeriodicGauss', {'mean': mu, 'variance': var}))
    for deg in (1, 2, 3):
        for ki, knots in enumerate(([-2.0, -0.5, 0.3, 2.0], [-2.0, -1.0, 0.0, 0.8, 2.0])):
            n = len(knots) - 1
            for j in range(n + deg):
                out.append(('Bspline', {'degree': deg, 'knots': knots, 'unit': j}))
    return out


def cases(tier):
    for fam, par in param_sets(tier):
        for dim in ((1, 2, 3) if tier == 'quick' else (1, 2, 3, 4)):
            for index in range(dim):
                for given in (True, False):
                    yield {'fam': fam, 'par': par, 'dim': dim, 'index': index, 'given': given}


def make(case, idx_type=int, np_params=False):
    import scikit_tt.data_driven.transform as tdt
    fam, par, idx = case['fam'], case['par'], idx_type(case['index'])
    if np_params:
        # numeric parameters as NumPy scalars (np.max of data, entries of parameter arrays): np.float64 is a float
        par = {k: (np.float64(v) if isinstance(v, float) else (np.int64(v) if isinstance(v, int) and not isinstance(v, bool) else v)) for k, v in par.items()}
    dim = case['dim'] if case['given'] else None
    if fam == 'Constant':
        return tdt.ConstantFunction(idx, dimension=dim)
    if fam == 'Identity':
        return tdt.Identity(idx, dimension=dim)
    if fam == 'Indicator':
        return tdt.IndicatorFunction(idx, par['a'], par['b'], dimension=dim)
    if fam == 'Monomial':
        return tdt.Monomial(idx, par['exponent'], prefactor=par['prefactor'], dimension=dim)
    if fam == 'Legendre':
        return tdt.Legendre(idx, par['degree'], domain=par['domain'], dimension=dim)
    if fam == 'Sin':
        return tdt.Sin(idx, par['alpha'], dimension=dim)
    if fam == 'Cos':
        return tdt.Cos(idx, par['alpha'], dimension=dim)
    if fam == 'Gauss':
        return tdt.GaussFunction(idx, par['mean'], par['variance'], dimension=dim)
    if fam == 'PeriodicGauss':
        return tdt.PeriodicGaussFunction(idx, par['mean'], par['variance'], dimension=dim)
    if fam == 'Bspline':
        n = len(par['knots']) - 1
        coeff = np.zeros(n + par['degree']); coeff[par['unit']] = 1.0
        return tdt.Bspline(idx, np.array(par['knots']), par['degree'], coeff, dimension=dim)
    raise ValueError(fam)


def run_case(case, seed):
    r = R(case)
    r.nontrivial = True
    fam, dim, idx = case['fam'], case['dim'], case['index']
    key = fam
    with r.op(key + ':construct'):
        f = make(case)
    if r.fails:
        return r
    pts = [np.array(p, dtype=float) for p in itertools.product(GRID1, repeat=dim)]
    # special points: zero, +-1, and the parameter-derived ones (domain end points, mean) in the function's own coordinate
    special = [0.0, 1.0, -1.0]
    if fam == 'Legendre':
        special += [case['par']['domain'], -case['par']['domain']]
    if fam in ('Gauss', 'PeriodicGauss'):
        special += [case['par']['mean']]
    if fam == 'Indicator':
        special += [case['par']['a'], case['par']['b']]          # the edges of the half-open interval [a, b)
    if fam == 'PeriodicGauss':
        special += [case['par']['mean'] + 4.0, case['par']['mean'] - 5.0, case['par']['mean'] + 7.5]      # beyond half a period / a full period away from the mean
    if fam == 'Bspline':
        special = [0.15, 1.0, -1.0]          # knots are excluded for splines (one-sided derivatives)
        special = [v for v in special if all(abs(v - kn) > 1e-3 for kn in case['par']['knots'])]
    for v in special:
        q_ = np.array([0.37 - 0.2 * k for k in range(dim)], dtype=float); q_[idx] = v
        pts.append(q_)
    # evaluation against the family's closed form (independent of the library): the derivatives below are then compared with
    # derivatives of the library's own __call__
    par = case['par']

    def closed(t):
        from numpy.polynomial import legendre as npleg
        from scipy.interpolate import BSpline as SB
        if fam == 'Constant':
            return 1.0
        if fam == 'Identity':
            return t
        if fam == 'Indicator':
            return 1.0 if par['a'] <= t < par['b'] else 0.0
        if fam == 'Monomial':
            return par['prefactor'] * t ** par['exponent']
        if fam == 'Legendre':
            return npleg.legval(t / par['domain'], [0] * par['degree'] + [1])
        if fam == 'Sin':
            return np.sin(par['alpha'] * t)
        if fam == 'Cos':
            return np.cos(par['alpha'] * t)
        if fam == 'Gauss':
            return np.exp(-0.5 * (t - par['mean']) ** 2 / par['variance'])
        return None
    with r.op(key + ':call'):
        v0_ = f(pts[0])
        r.true(key + ':value-type', not isinstance(v0_, (bool, np.bool_)) and np.asarray(f(np.array(pts).T)).dtype != np.bool_, 'evaluation returns booleans (%s)' % type(v0_).__name__)
        for p_ in pts:
            cv = closed(p_[idx])
            if cv is not None:
                r.true(key + ':value', abs(float(f(p_)) - cv) <= 1e-12 * max(1.0, abs(cv)), 'f(%s) = %r, closed form %r' % (p_, float(f(p_)), cv))
    if par.get('value_only'):
        return r
    analytic = fam not in ('Bspline', 'Indicator')
    no_d1 = fam == 'Indicator'
    no_d2 = fam in ('Indicator', 'PeriodicGauss', 'Bspline')
    # first call fixes the dimension when it was not given
    with r.op(key + ':call'):
        vals = np.array([f(p) for p in pts], dtype=float)
        r.true(key + ':dimension-attr', f.dimension == dim, 'dimension %r' % f.dimension)
        # array evaluation == point by point
        A = np.array(pts).T              # dim x m
        A0 = A.copy()
        va = np.asarray(f(A), dtype=float)
        r.true(key + ':array-call', va.shape == (len(pts),) and np.allclose(va, vals, rtol=1e-13, atol=1e-13), 'array evaluation differs from pointwise')
        r.true(key + ':array-call:input-unchanged', np.array_equal(A, A0), 'evaluation on an array modified the array')
        vb = np.asarray(f(A), dtype=float)
        r.true(key + ':array-call:repeatable', np.array_equal(va, vb), 'second evaluation on the same array differs')
    # call history on ONE point buffer that the caller updates in place between calls (a time-stepping loop): every call must see
    # the buffer's current contents -- value, partial, gradient, partial2
    with r.op(key + ':buffer-reuse:call'):
        buf = np.array(pts[0], dtype=float)
        other = make(dict(case, given=True))          # a second object of the same function evaluates the fresh arrays
        for p_ in pts[:4]:
            buf[:] = p_
            fresh = np.array(p_, dtype=float)
            r.true(key + ':buffer-reuse:value', float(f(buf)) == float(other(fresh)), 'value at a point buffer updated in place differs from the value at a fresh array')
            if not no_d1:
                r.true(key + ':buffer-reuse:partial', float(f.partial(buf, idx)) == float(other.partial(fresh, idx)), 'partial at a point buffer updated in place')
                r.true(key + ':buffer-reuse:gradient', np.array_equal(np.asarray(f.gradient(buf), dtype=float), np.asarray(other.gradient(fresh), dtype=float)), 'gradient at a point buffer updated in place')
            if not no_d2:
                r.true(key + ':buffer-reuse:partial2', float(f.partial2(buf, idx, idx)) == float(other.partial2(fresh, idx, idx)), 'partial2 at a point buffer updated in place')
    # every method as the FIRST call on a fresh object (the dimension may have to be inferred by that very call)
    p0 = pts[len(pts) // 2]
    ref = make(dict(case, given=True))
    firsts = [('call', lambda g: g(p0), lambda: ref(p0))]
    if fam != 'Indicator':
        firsts += [('partial', lambda g: g.partial(p0, idx), lambda: ref.partial(p0, idx)), ('gradient', lambda g: g.gradient(p0), lambda: ref.gradient(p0))]
    if fam not in ('Indicator', 'PeriodicGauss', 'Bspline'):
        firsts += [('partial2', lambda g: g.partial2(p0, idx, idx), lambda: ref.partial2(p0, idx, idx)), ('hessian', lambda g: g.hessian(p0), lambda: ref.hessian(p0))]
    for nm, fn, rf in firsts:
        with r.op(key + ':first-call:' + nm):
            got = np.asarray(fn(make(case)), dtype=float); want = np.asarray(rf(), dtype=float)
            r.true(key + ':first-call:' + nm + ':value', got.shape == want.shape and np.allclose(got, want, rtol=1e-14, atol=0),
                   '%s as first call on a fresh object: %s, expected %s' % (nm, got.tolist(), want.tolist()))
    h = 1e-30
    for p in pts:
        sc = 1.0
        for k in range(dim):
            if no_d1:
                try:
                    f.partial(p, k)
                    r.fail(key + ':partial-should-raise', 'no NotImplementedError')
                except NotImplementedError:
                    r.checks += 1
                except Exception as e:
                    r.fail(key + ':partial-wrong-exception', repr(e))
                continue
            with r.op(key + ':partial:call'):
                got = f.partial(p, k)
                if analytic:
                    q = p.astype(complex); q[k] += 1j * h
                    want = np.imag(f(q)) / h
                    # high-degree Legendre polynomials are evaluated from monomial coefficients (cancellation on both sides)
                    tol = 1e-12 if not (fam == 'Legendre' and case['par']['degree'] >= 6) else 1e-8
                else:
                    e = np.zeros(dim); e[k] = 1e-5
                    want = (f(p + e) - f(p - e)) / 2e-5
                    tol = 1e-6
                r.true(key + ':partial' + ('' if k == idx else ':foreign'), abs(got - want) <= tol * max(1.0, abs(want)),
                       'd/dx%d at %s: got %r, derivative of __call__ %r' % (k, p, got, want))
                if k != idx:
                    r.true(key + ':partial:foreign-zero', got == 0)
            for l in range(dim):
                if no_d2:
                    if k == 0 and l == 0:
                        try:
                            f.partial2(p, k, l)
                            r.fail(key + ':partial2-should-raise', 'no NotImplementedError')
                        except NotImplementedError:
                            r.checks += 1
                        except Exception as e:
                            r.fail(key + ':partial2-wrong-exception', repr(e))
                    continue
                with r.op(key + ':partial2:call'):
                    got = f.partial2(p, k, l)
                    q = p.astype(complex); q[l] += 1j * h
                    want = np.imag(f.partial(q, k)) / h
                    r.true(key + ':partial2' + ('' if (k == idx and l == idx) else ':foreign'),
                           abs(got - want) <= (1e-11 if not (fam == 'Legendre' and case['par']['degree'] >= 6) else 1e-7) * max(1.0, abs(want)),
                           'd2/dx%d dx%d at %s: got %r, derivative of partial %r' % (k, l, p, got, want))
        if not no_d1:
            with r.op(key + ':gradient:call'):
                g = np.asarray(f.gradient(p), dtype=float)
                want = np.array([f.partial(p, k) for k in range(dim)], dtype=float)
                r.true(key + ':gradient', g.shape == (dim,) and np.allclose(g, want, rtol=1e-14, atol=0), 'gradient %s vs partials %s' % (g, want))
        if not no_d2:
            with r.op(key + ':hessian:call'):
                H = np.asarray(f.hessian(p), dtype=float)
                want = np.array([[f.partial2(p, k, l) for l in range(dim)] for k in range(dim)], dtype=float)
                r.true(key + ':hessian', H.shape == (dim, dim) and np.allclose(H, want, rtol=1e-14, atol=0), 'hessian vs partial2')
    # points given with an integer dtype (arrays and plain lists): derivatives are real numbers all the same
    if not no_d1:
        for ip in ([1] * dim, [2, -1, 3, -2][:dim], [0] * dim):
            for as_list in (False, True):
                pt = list(ip) if as_list else np.array(ip, dtype=np.int64)
                pf = np.array(ip, dtype=float)
                if fam == 'Bspline' and any(abs(pf[idx] - kn) < 1e-9 for kn in case['par']['knots']):
                    continue
                with r.op(key + ':int-point:call'):
                    g = np.asarray(f.gradient(pt), dtype=float); gw = np.asarray(f.gradient(pf), dtype=float)
                    r.true(key + ':int-point:gradient', g.shape == gw.shape and np.allclose(g, gw, rtol=1e-13, atol=1e-13), 'gradient at %s: %s vs %s at the float point' % (ip, g, gw))
                    r.true(key + ':int-point:partial', abs(f.partial(pt, idx) - f.partial(pf, idx)) <= 1e-13 * max(1, abs(f.partial(pf, idx))))
                    if not no_d2:
                        H = np.asarray(f.hessian(pt), dtype=float); Hw = np.asarray(f.hessian(pf), dtype=float)
                        r.true(key + ':int-point:hessian', H.shape == Hw.shape and np.allclose(H, Hw, rtol=1e-13, atol=1e-13))
                    r.true(key + ':int-point:value', abs(float(f(pt)) - float(f(pf))) <= 1e-13 * max(1, abs(float(f(pf)))))
    # coordinates and the index given as NumPy integers (np.arange, argmax, integer arrays) or as a distinct int object
    if not no_d1:
        with r.op(key + ':numpy-int-direction:call'):
            for npt in (np.int64, np.int32):
                fn_ = make(dict(case, given=True), npt)          # the object's own index is a NumPy integer
                for k in range(dim):
                    want = f.partial(p0, k)
                    r.true(key + ':numpy-int-direction:partial', f.partial(p0, npt(k)) == want and fn_.partial(p0, k) == want and fn_.partial(p0, npt(k)) == want,
                           'direction %d as %s: %r / %r / %r vs %r' % (k, npt.__name__, f.partial(p0, npt(k)), fn_.partial(p0, k), fn_.partial(p0, npt(k)), want))
                    if not no_d2:
                        for l in range(dim):
                            want2 = f.partial2(p0, k, l)
                            r.true(key + ':numpy-int-direction:partial2', f.partial2(p0, npt(k), npt(l)) == want2 and fn_.partial2(p0, k, npt(l)) == want2,
                                   'directions %d,%d as %s' % (k, l, npt.__name__))
                r.true(key + ':numpy-int-direction:gradient', np.array_equal(np.asarray(fn_.gradient(p0)), np.asarray(f.gradient(p0))))
                r.true(key + ':numpy-int-direction:value', fn_(p0) == f(p0))
    # B-splines at the two end knots: one-sided derivatives of the evaluation (from inside the knot interval)
    if fam == 'Bspline':
        kn = case['par']['knots']
        for xe, sgn in ((kn[0], 1.0), (kn[-1], -1.0)):
            q_ = np.array([0.37 - 0.2 * k for k in range(dim)], dtype=float); q_[idx] = xe
            hh = 1e-6
            e_ = np.zeros(dim); e_[idx] = sgn * hh
            with r.op(key + ':end-knot:call'):
                one_sided = sgn * (-3 * f(q_) + 4 * f(q_ + e_) - f(q_ + 2 * e_)) / (2 * hh)
                got = f.partial(q_, idx)
                r.true(key + ':end-knot:partial', abs(got - one_sided) <= 1e-4 * max(1.0, abs(one_sided)), 'at the %s knot %g: partial %r, one-sided derivative of __call__ %r' % ('first' if sgn > 0 else 'last', xe, got, one_sided))
    # B-splines in other units: the spline on the knots s*K with the same coefficients is x -> f(x/s); value and derivative follow
    # by the chain rule (s = 1e-9: every knot spacing is tiny in absolute terms; s = 1e3)
    if fam == 'Bspline':
        import scikit_tt.data_driven.transform as tdt
        par_ = case['par']
        coeff_ = np.zeros(len(par_['knots']) - 1 + par_['degree']); coeff_[par_['unit']] = 1.0
        for s_ in (1e-9, 1e3):
            with r.op(key + ':rescaled-knots:call'):
                g_ = tdt.Bspline(idx, s_ * np.array(par_['knots']), par_['degree'], coeff_.copy(), dimension=dim)
                for p_ in pts:
                    if not (par_['knots'][0] < p_[idx] < par_['knots'][-1]) or any(abs(p_[idx] - kn_) < 1e-3 for kn_ in par_['knots']):
                        continue
                    ps_ = np.array(p_, dtype=float); ps_[idx] = s_ * p_[idx]
                    v0_, v1_ = float(f(p_)), float(g_(ps_))
                    r.true(key + ':rescaled-knots:value', abs(v1_ - v0_) <= 1e-9 * max(1.0, abs(v0_)), 'knots x %g: value %r vs %r' % (s_, v1_, v0_))
                    d0_, d1_ = float(f.partial(p_, idx)), float(g_.partial(ps_, idx)) * s_
                    r.true(key + ':rescaled-knots:partial', abs(d1_ - d0_) <= 1e-7 * max(1.0, abs(d0_)), 'knots x %g: s * partial %r vs %r' % (s_, d1_, d0_))
    # the public parameter attributes are reassigned after construction (a parameter sweep re-using one object): every method
    # follows the new values
    if fam in ('Sin', 'Cos', 'Gauss', 'PeriodicGauss'):
        newpar = {'alpha': par['alpha'] * 1.7} if fam in ('Sin', 'Cos') else {'mean': par['mean'] + 0.3, 'variance': par['variance'] * 1.5}
        with r.op(key + ':reassigned-parameters:call'):
            fa_ = make(dict(case, given=True))
            for k_, v_ in newpar.items():
                setattr(fa_, k_, v_)
            fb_ = make(dict(case, given=True, par=dict(par, **newpar)))
            r.true(key + ':reassigned-parameters:value', float(fa_(p0)) == float(fb_(p0)), 'value after the parameters were reassigned')
            r.true(key + ':reassigned-parameters:partial', float(fa_.partial(p0, idx)) == float(fb_.partial(p0, idx)), 'partial after the parameters were reassigned')
            if not no_d2:
                r.true(key + ':reassigned-parameters:partial2', float(fa_.partial2(p0, idx, idx)) == float(fb_.partial2(p0, idx, idx)),
                       'partial2 after the parameters were reassigned: %r vs %r' % (fa_.partial2(p0, idx, idx), fb_.partial2(p0, idx, idx)))
                r.true(key + ':reassigned-parameters:hessian', np.array_equal(np.asarray(fa_.hessian(p0), dtype=float), np.asarray(fb_.hessian(p0), dtype=float)))
    # the same function built with NumPy-scalar parameters
    if not no_d1 and fam != 'Bspline':
        with r.op(key + ':numpy-scalar-parameters:call'):
            fp = make(dict(case, given=True), int, True)
            r.true(key + ':numpy-scalar-parameters:value', abs(float(fp(p0)) - float(f(p0))) <= 1e-14 * max(1.0, abs(float(f(p0)))))
            r.true(key + ':numpy-scalar-parameters:partial', abs(float(fp.partial(p0, idx)) - float(f.partial(p0, idx))) <= 1e-13 * max(1.0, abs(float(f.partial(p0, idx)))))
            if not no_d2:
                r.true(key + ':numpy-scalar-parameters:partial2', abs(float(fp.partial2(p0, idx, idx)) - float(f.partial2(p0, idx, idx))) <= 1e-13 * max(1.0, abs(float(f.partial2(p0, idx, idx)))))
    # array evaluation of the derivatives where they are array-valued
    if not no_d1:
        with r.op(key + ':partial:array-call'):
            pa = f.partial(np.array(pts).T, idx)
            if not np.isscalar(pa):
                want = np.array([f.partial(p, idx) for p in pts], dtype=float)
                r.true(key + ':partial:array', np.allclose(np.asarray(pa, dtype=float), want, rtol=1e-13, atol=1e-13))
    return r
