"""C07 — ALS/MALS linear solvers: energy descent, fixed point, exactness at full rank; micro-step state machine."""
import itertools
import numpy as np
from vt.core import R, rng_for, rand_cores, tt_from, mat, vec, admissible_ranks, max_ranks, snap, unchanged, meta_problem
from vt import monitors as mon

ID = 'C07'
LEVEL = 'exploration'
RULE = ('complete enumeration of order x mode sizes x dtype x operator construction (dense HPD -> TT, TT-built B^H B + I) '
        'x right-hand-side rank x EVERY admissible guess rank vector x solver x method/truncation setting; each point runs '
        'repeats = 1,2,3 with a monitor on every micro-step (iteration, direction, core): micro matrix/rhs = dense Galerkin '
        'projection F^H A F / F^H b of the current frame, energy of the micro-step minimiser non-increasing along the sweep, '
        'frame orthonormal after each QR/SVD; plus exact-solution fixed point and exactness at maximal ranks. Non-trivial: '
        'order >= 2 with a guess rank > 1 or complex data.')
ASSUMPTIONS = ['numpy.linalg.solve on the matricised system is the reference', 'guess ranks admissible (D5)',
               'HPD operators with condition number <= ~50 by construction',
               'MALS with a binding max_rank: only fixed point on representable solutions, rank cap and input integrity are asserted (descent is not a theorem)']
CHUNK = 8
STATE = {'mon': None}


def space(tier):
    q = tier == 'quick'
    return {'orders': [1, 2, 3] if q else [1, 2, 3, 4, 5], 'dims': [2, 3] if q else [1, 2, 3, 4], 'rhs ranks': [1, 2],
            'guess ranks': 'all admissible vectors', 'solver': ['solve', 'lu'], 'repeats': [1, 2, 3],
            'methods': ['als', 'mals(0,inf)', 'mals(1e-12,inf)', 'mals(1e-12,r) and mals(0,r), r=1..3']}


def cases(tier):
    q = tier == 'quick'
    for d in ([1, 2, 3] if q else [1, 2, 3, 4, 5]):
        if q or d == 4:
            dimsets = itertools.product([2, 3], repeat=d)
        elif d == 5:
            dimsets = [(2,) * 5]
        else:
            dimsets = itertools.product([1, 2, 3] if d == 3 else [1, 2, 3, 4], repeat=d)
        for dims in dimsets:
            if d == 4 and np.prod(dims) > 54:
                continue
            if all(x == 1 for x in dims):
                continue
            # 'rhs' / 'guess': only that object is complex (mixed dtypes); 'tail': right-hand side and guess have real first
            # cores and complex later ones; 'tailop': only the operator is complex, and only from its second core on
            for c in (False, True, 'rhs', 'guess', 'tail', 'tailop'):
                for opk in ('dense', 'ttbuilt', 'kronint', 'diagfirst'):
                    if opk == 'diagfirst' and (d == 1 or c not in (False, True) or dims[0] < 2):
                        continue
                    if c in ('rhs', 'guess', 'tail', 'tailop') and (opk == 'ttbuilt' or d == 4):
                        continue
                    if c in ('tail', 'tailop') and d == 1:
                        continue
                    if opk == 'kronint' and (c is not False or d == 4):     # integer-dtype cores everywhere (operator, guess, rhs)
                        continue
                    if d == 1 and opk == 'ttbuilt':
                        continue
                    for rb in (1, 2):
                        for rg in admissible_ranks(list(dims)):
                            for solver in ('solve', 'lu'):
                                meths = [('als', None, None)]
                                if d >= 2:
                                    meths += [('mals', 0, 'inf'), ('mals', 1e-12, 'inf')] + [('mals', t_, r) for r in (1, 2, 3) for t_ in (1e-12, 0)]
                                for meth, thr, mr in meths:
                                    if not q and d >= 4 and (solver == 'lu' or opk == 'ttbuilt') and meth == 'mals' and mr not in ('inf',):
                                        continue
                                    yield {'dims': list(dims), 'c': c, 'op': opk, 'rb': rb, 'rg': rg, 'solver': solver,
                                           'meth': meth, 'thr': thr, 'mr': mr}
                                    if meth == 'mals' and mr == 2 and c in (False, True) and opk == 'dense':
                                        # max_rank given as a NumPy integer (what np.max(t.ranks) or an integer array yields)
                                        yield {'dims': list(dims), 'c': c, 'op': opk, 'rb': rb, 'rg': rg, 'solver': solver,
                                               'meth': meth, 'thr': thr, 'mr': mr, 'mrt': 'np64' if solver == 'solve' else 'np32'}


class Monitor:
    def __init__(self, r, A, b, xstar, dims, width, key):
        self.r = r; self.A = A; self.b = b; self.xs = xstar; self.dims = dims; self.width = width; self.key = key
        self.energies = []
        self.truncated = False
        self.scale = float(np.real(xstar.conj() @ A @ xstar)) + 1.0

    def energy(self, x):
        e = x - self.xs
        return float(np.real(e.conj() @ self.A @ e))

    def before(self, i, micro_op, micro_rhs, solution, direction):
        F = mon.frame(solution.cores, i, self.width, self.dims)
        r = self.r
        want = F.conj().T @ self.A @ F
        r.close(self.key + ':micro-matrix', np.asarray(micro_op), want, 1e-9, 'step %s core %d' % (direction, i))
        r.close(self.key + ':micro-rhs', np.asarray(micro_rhs).reshape(-1), F.conj().T @ self.b, 1e-9,
                'step %s core %d' % (direction, i))
        try:
            y = np.linalg.solve(want, F.conj().T @ self.b)
            e = self.energy(F @ y)
            if self.energies and not self.truncated:
                r.le(self.key + ':micro-step-descent', e, self.energies[-1], 1e-9 * self.scale,
                     'step %s core %d (energies so far %s)' % (direction, i, self.energies[-3:]))
            self.energies.append(e)
            self.truncated = False
        except np.linalg.LinAlgError:
            r.skipped += 1

    def after(self, i, solution, direction, svals_discarded=False):
        from vt.core import is_left_orth, is_right_orth
        if direction == 'forward':
            self.r.true(self.key + ':frame-left-orthonormal', is_left_orth(solution.cores[i], 1e-9), 'core %d after forward step' % i)
        else:
            j = i if self.width == 1 else i + 1
            if j > 0:
                self.r.true(self.key + ':frame-right-orthonormal', is_right_orth(solution.cores[j], 1e-9), 'core %d after backward step' % j)


def _install():
    from scikit_tt.solvers import sle

    def wrap_als(orig):
        def w(i, micro_op, micro_rhs, solution, solver, direction):
            m = STATE['mon']
            if m is not None:
                m.before(i, np.array(micro_op), np.array(micro_rhs), solution, direction)
            out = orig(i, micro_op, micro_rhs, solution, solver, direction)
            if m is not None:
                m.after(i, solution, direction)
            return out
        return w

    def wrap_mals(orig):
        def w(i, micro_op, micro_rhs, solution, solver, threshold, max_rank, direction):
            m = STATE['mon']
            if m is not None:
                m.before(i, np.array(micro_op), np.array(micro_rhs), solution, direction)
                full = min(solution.ranks[i] * solution.row_dims[i], solution.row_dims[i + 1] * solution.ranks[i + 2])
            out = orig(i, micro_op, micro_rhs, solution, solver, threshold, max_rank, direction)
            if m is not None:
                if solution.ranks[i + 1] < full:
                    m.truncated = True       # singular directions were discarded: descent to the next step is not a theorem
                    m.r.count('mals_steps_with_truncation')
                m.after(i, solution, direction)
            return out
        return w
    mon.install(sle, '__update_core_als', wrap_als)
    mon.install(sle, '__update_core_mals', wrap_mals)


def make_problem(case, rng):
    from scikit_tt.tensor_train import TT
    import scikit_tt.tensor_train as tt
    dims, cc = case['dims'], case['c']
    c = cc is True
    d = len(dims)
    n = int(np.prod(dims))
    if case['op'] == 'kronint':
        cores = []
        for m_ in dims:
            Ti = 2 * np.eye(m_, dtype=np.int64) + np.eye(m_, k=1, dtype=np.int64) + np.eye(m_, k=-1, dtype=np.int64) if m_ > 1 else np.array([[3]], dtype=np.int64)
            cores.append(Ti.reshape(1, m_, m_, 1))
        op = TT(cores)                       # Kronecker product of tridiagonal SPD integer matrices, int64 cores
        A = mat(op).astype(float)
        b = TT([np.rint((1000 if d <= 3 else 20) * rng.standard_normal((1 if i == 0 else case['rb'], dims[i], 1, 1 if i == d - 1 else case['rb']))).astype(np.int64) for i in range(d)])
        return op, A, b
    if case['op'] == 'diagfirst':
        # Kronecker sum D (x) I + I (x) A_2 + ... with a DIAGONAL first factor, right-hand side supported on the last index of
        # the first mode: the solution vanishes exactly on the other first-mode indices (sparse, structured data)
        def spd(m_):
            Bi = rng.standard_normal((m_, m_)) + (1j * rng.standard_normal((m_, m_)) if c else 0)
            return Bi.conj().T @ Bi / m_ + np.eye(m_)
        facs = [np.diag(1.0 + np.arange(dims[0]))] + [spd(m_) for m_ in dims[1:]]
        cores = []
        for i_, m_ in enumerate(dims):
            I_ = np.eye(m_)
            if i_ == 0:
                cr = np.zeros((1, m_, m_, 2), dtype=complex if c else float); cr[0, :, :, 0] = facs[0]; cr[0, :, :, 1] = I_
            elif i_ == d - 1:
                cr = np.zeros((2, m_, m_, 1), dtype=complex if c else float); cr[0, :, :, 0] = I_; cr[1, :, :, 0] = facs[i_]
            else:
                cr = np.zeros((2, m_, m_, 2), dtype=complex if c else float); cr[0, :, :, 0] = I_; cr[1, :, :, 0] = facs[i_]; cr[1, :, :, 1] = I_
            cores.append(cr)
        op = TT(cores)
        A = mat(op)
        bc = rand_cores(rng, dims, [1] * d, [1] + [case['rb']] * (d - 1) + [1], c)
        bc[0][:, :-1, :, :] = 0.0
        b = tt_from(bc)
        return op, A, b
    if cc == 'tailop':
        # Kronecker product of a real SPD first factor and complex HPD later factors: the first operator core is real
        cores = []
        for i_, m_ in enumerate(dims):
            Bi = rng.standard_normal((m_, m_)) + (1j * rng.standard_normal((m_, m_)) if i_ > 0 else 0)
            cores.append((Bi.conj().T @ Bi / m_ + np.eye(m_)).reshape(1, m_, m_, 1))
        op = TT(cores)
        A = mat(op)
        b = tt_from(rand_cores(rng, dims, [1] * d, [1] + [case['rb']] * (d - 1) + [1], False))
        return op, A, b
    if case['op'] == 'dense':
        B = rng.standard_normal((n, n)) + (1j * rng.standard_normal((n, n)) if c else 0)
        A = B.conj().T @ B / n + np.eye(n)
        op = TT(A.reshape(dims + dims))
    else:
        Bt = tt_from(rand_cores(rng, dims, dims, [1] + [2] * (d - 1) + [1], c))
        Bt = (1.0 / Bt.norm()) * Bt
        op = Bt.transpose(conjugate=True) @ Bt + tt.eye(dims)
    A = mat(op)
    b = tt_from(rand_cores(rng, dims, [1] * d, [1] + [case['rb']] * (d - 1) + [1], 'tail' if cc == 'tail' else cc in (True, 'rhs')))
    return op, A, b


def run_case(case, seed):
    from scikit_tt.solvers import sle
    _install()
    r = R(case)
    rng = rng_for(case, seed)
    dims, c, rg, solver, meth = case['dims'], case['c'], case['rg'], case['solver'], case['meth']
    d = len(dims)
    op, A, b = make_problem(case, rng)
    bv = vec(b)
    xs = np.linalg.solve(A, bv)
    guess = tt_from(rand_cores(rng, dims, [1] * d, rg, 'tail' if c == 'tail' else c in (True, 'guess')))
    if case['op'] == 'kronint':
        from scikit_tt.tensor_train import TT as _TT
        g_ = [np.rint((1000 if d <= 3 else 20) * rng.standard_normal((rg[i], dims[i], 1, rg[i + 1]))) for i in range(d)]    # integer dtype, generic values (no exact coincidences); magnitudes chosen so that the int64 environments cannot overflow
        guess = _TT([x_.astype(np.int64) for x_ in g_])
        # D5: the frames of the guess must have full rank (every unfolding rank equals the representation rank)
        from vt.core import unfolding_svals
        ga = vec(guess).reshape(dims + [1] * d)
        if any(np.sum(unfolding_svals(ga, d, k_) > 1e-9 * max(1.0, np.abs(ga).max())) < rg[k_] for k_ in range(1, d)) or not np.any(vec(b)):
            r.skipped += 1
            r.outcome = 'skipped-degenerate-integer-guess'
            return r
    r.nontrivial = d >= 2 and (max(rg) > 1 or bool(c))
    sop, sb, sg = snap(op), snap(b), snap(guess)
    thr = case['thr']; mr = np.inf if case['mr'] in (None, 'inf') else case['mr']
    if case.get('mrt'):
        mr = {'np64': np.int64, 'np32': np.int32}[case['mrt']](mr)
    binding = meth == 'mals' and mr != np.inf
    key = meth + (':binding' if binding else '')
    scale = float(np.real(xs.conj() @ A @ xs)) + 1.0

    def energy(x):
        e = x - xs
        return float(np.real(e.conj() @ A @ e))

    def solve(g, reps, monitor=None):
        STATE['mon'] = monitor
        try:
            if meth == 'als':
                return sle.als(op, g, b, repeats=reps, solver=solver)
            return sle.mals(op, g, b, repeats=reps, solver=solver, threshold=thr, max_rank=mr)
        finally:
            STATE['mon'] = None

    e0 = energy(vec(guess))
    prev = e0
    ismax = list(rg) == max_ranks(dims)
    for reps in (1, 2, 3):
        m = None if binding else Monitor(r, A, bv, xs, dims, 1 if meth == 'als' else 2, key)
        if m is not None:
            m.energies.append(e0)
        with r.op(key + ':call'):
            x = solve(guess, reps, m)
            mp = meta_problem(x)
            if not r.true(key + ':meta', mp is None, mp):
                continue
            r.true(key + ':dims', list(x.row_dims) == list(dims) and list(x.col_dims) == [1] * d, 'dims %s %s' % (x.row_dims, x.col_dims))
            if meth == 'als':
                r.true(key + ':als-rank-growth', all(a <= g_ for a, g_ in zip(x.ranks, rg)), 'ranks %s guess %s' % (x.ranks, rg))
            elif mr != np.inf:
                r.true(key + ':max-rank', all(a <= mr for a in x.ranks[1:-1]), 'ranks %s cap %s' % (x.ranks, mr))
            if not binding:
                e = energy(vec(x))
                r.le(key + ':descent-vs-guess', e, e0, 1e-9 * scale, 'repeats %d' % reps)
                r.le(key + ':descent-vs-repeats', e, prev, 1e-9 * scale, 'repeats %d' % reps)
                prev = e
                if ismax or d == 1:
                    r.close(key + ':exact-at-max-rank', vec(x), xs, 1e-8, 'repeats %d' % reps)
    # warm start: a maximal-rank guess that already agrees with the solution to nine digits is refined to rounding level like any other
    if not binding and case['op'] == 'dense' and c in (False, True):
        from scikit_tt.tensor_train import TT as _TTw
        noise_ = rng.standard_normal(xs.shape) + (1j * rng.standard_normal(xs.shape) if c else 0)
        gw = _TTw((xs * (1 + 1e-9 * noise_)).reshape(list(dims) + [1] * d))
        with r.op(key + ':warm-start:call'):
            yw = solve(gw, 1)
            if meta_problem(yw) is None and list(yw.row_dims) == list(dims):
                r.close(key + ':warm-start:refined', vec(yw), xs, 1e-11, 'guess = solution * (1 + 1e-9 noise), ranks %s' % gw.ranks)
    # two-site blocks span everything when d == 2: exact regardless of the guess ranks
    # fixed point: exact (representable) solution as guess
    xg = tt_from(rand_cores(rng, dims, [1] * d, rg, c is True or c == 'guess'))
    b2 = op @ xg
    xs2 = vec(xg)
    if not binding or all(a <= mr for a in rg[1:-1]):
        STATE['mon'] = None
        with r.op(key + ':fixed-point:call'):
            if meth == 'als':
                y = sle.als(op, xg, b2, repeats=1, solver=solver)
            else:
                y = sle.mals(op, xg, b2, repeats=1, solver=solver, threshold=thr if (thr or mr != np.inf) else 1e-12, max_rank=mr)
            if meta_problem(y) is None and list(y.row_dims) == list(dims):
                r.close(key + ':fixed-point', vec(y), xs2, 1e-8)
            else:
                r.fail(key + ':fixed-point:meta', str(meta_problem(y)))
    # linearity in the right-hand side: the same system with b scaled by 1e-10 (a right-hand side of tiny norm is not zero)
    if not binding and case['op'] in ('dense', 'diagfirst'):
        sc_ = 1e-10
        with r.op(key + ':tiny-rhs:call'):
            gt = tt_from(rand_cores(rng, dims, [1] * d, max_ranks(dims), c is True))
            bt = sc_ * b
            yt = sle.als(op, gt, bt, repeats=1, solver=solver) if meth == 'als' else sle.mals(op, gt, bt, repeats=1, solver=solver, threshold=thr, max_rank=mr)
            if meta_problem(yt) is None and list(yt.row_dims) == list(dims):
                r.close(key + ':tiny-rhs:exact-at-max-rank', vec(yt) / sc_, xs, 1e-7, 'right-hand side scaled by %g' % sc_)
        # ... and linearity in the operator: the same system with A scaled by 1e-8 (an operator in small units is not singular)
        so_ = 1e-8
        with r.op(key + ':tiny-operator:call'):
            gt = tt_from(rand_cores(rng, dims, [1] * d, max_ranks(dims), c is True))
            ot = so_ * op
            yt = sle.als(ot, gt, b, repeats=1, solver=solver) if meth == 'als' else sle.mals(ot, gt, b, repeats=1, solver=solver, threshold=thr, max_rank=mr)
            if meta_problem(yt) is None and list(yt.row_dims) == list(dims):
                r.close(key + ':tiny-operator:exact-at-max-rank', vec(yt) * so_, xs, 1e-7, 'operator scaled by %g' % so_)
    # an exact solution whose bond singular values are graded (1, 1e-3, 1e-5) with threshold 1e-8: every retained ratio lies far
    # above the cut, so the solution must stay a fixed point up to the cut
    if meth == 'mals' and not binding and case['op'] == 'dense' and c in (False, True) and d >= 3 and thr != 0:
        k_ = min(3, min(max_ranks(dims)[1:-1]))
        if k_ >= 2:
            wts = np.array([1.0, 1e-3, 1e-5]) if k_ == 3 else np.array([1.0, 1e-5])
            cs = []
            for i_, m_ in enumerate(dims):
                rl = 1 if i_ == 0 else k_; rr = 1 if i_ == d - 1 else k_
                cr = np.zeros((rl, m_, 1, rr), dtype=complex if c else float)
                Qi = np.linalg.qr(rng.standard_normal((m_, m_)) + (1j * rng.standard_normal((m_, m_)) if c else 0))[0]
                for j_ in range(k_):
                    cr[0 if i_ == 0 else j_, :, 0, 0 if i_ == d - 1 else j_] = Qi[:, j_ % m_] * (wts[j_] if i_ == 0 else 1.0)
                cs.append(cr)
            if all(m_ >= k_ for m_ in dims):
                xg2 = tt_from(cs)
                with r.op(key + ':graded-fixed-point:call'):
                    y2 = sle.mals(op, xg2, op @ xg2, repeats=1, solver=solver, threshold=1e-8, max_rank=np.inf)
                    if meta_problem(y2) is None and list(y2.row_dims) == list(dims):
                        r.close(key + ':graded-fixed-point', vec(y2), vec(xg2), 1e-6, 'bond weights %s; threshold 1e-8' % wts)
    # an exact solution of LOW rank and a maximal-rank guess of the form (other term) + x*, written as block cores with the other
    # term listed first: the leading vectors of the guess's interface frames are not needed for x*, so leading columns of the
    # solved cores vanish -- one sweep must still return x*
    mrk = max_ranks(dims)
    def _adm(rv):
        return all(rv[k_ + 1] <= rv[k_] * dims[k_] and rv[k_] <= dims[k_] * rv[k_ + 1] for k_ in range(d))
    split = None
    if not binding and ismax and d >= 2 and case['op'] in ('dense', 'ttbuilt', 'diagfirst') and c in (False, True) and all(v >= 2 for v in mrk[1:-1]):
        # ranks of x* and of the other term: both admissible (so that generic cores have full-rank frames, D5), summing to the maximal ranks
        for mid in itertools.product(*[range(1, v) for v in mrk[1:-1]]):
            ra = [1] + list(mid) + [1]; rb_ = [1] + [v - m_ for v, m_ in zip(mrk[1:-1], mid)] + [1]
            if _adm(ra) and _adm(rb_):
                split = (ra, rb_); break
        if split is None:
            r.count('low_rank_solution_no_admissible_split')
    if split is not None:
        for eps_ in (1.0, 1e-3):
            xt_c = rand_cores(rng, dims, [1] * d, split[0], c is True)
            ex_c = rand_cores(rng, dims, [1] * d, split[1], c is True)
            gc = []
            for i_ in range(d):
                a_, b_ = eps_ * ex_c[i_] if i_ == 0 else ex_c[i_], xt_c[i_]
                if i_ == 0:
                    gc.append(np.concatenate([a_, b_], axis=3))
                elif i_ == d - 1:
                    gc.append(np.concatenate([a_, b_], axis=0))
                else:
                    blk = np.zeros((a_.shape[0] + b_.shape[0], dims[i_], 1, a_.shape[3] + b_.shape[3]), dtype=a_.dtype)
                    blk[:a_.shape[0], :, :, :a_.shape[3]] = a_; blk[a_.shape[0]:, :, :, a_.shape[3]:] = b_
                    gc.append(blk)
            g3 = tt_from(gc); x3 = tt_from(xt_c)
            b3 = op @ x3
            with r.op(key + ':low-rank-solution:call'):
                STATE['mon'] = None
                for reps in (1, 2):
                    y3 = sle.als(op, g3, b3, repeats=reps, solver=solver) if meth == 'als' else sle.mals(op, g3, b3, repeats=reps, solver=solver, threshold=thr, max_rank=mr)
                    if meta_problem(y3) is None and list(y3.row_dims) == list(dims):
                        r.close(key + ':low-rank-solution:exact-at-max-rank', vec(y3), vec(x3), 1e-8, 'guess = %g*(other term) + x*, repeats %d, ranks returned %s' % (eps_, reps, y3.ranks))
                    else:
                        r.fail(key + ':low-rank-solution:meta', str(meta_problem(y3)))
    # aliased inputs: the right-hand side object itself passed as initial guess == a distinct copy passed as initial guess
    if not binding and case['op'] != 'kronint' and case['rb'] <= min(max_ranks(dims)[1:-1] + [case['rb']]):
        with r.op(key + ':aliased-guess:call'):
            STATE['mon'] = None
            if meth == 'als':
                y1 = sle.als(op, b, b, repeats=2, solver=solver); y2 = sle.als(op, b.copy(), b, repeats=2, solver=solver)
            else:
                y1 = sle.mals(op, b, b, repeats=2, solver=solver, threshold=thr, max_rank=mr); y2 = sle.mals(op, b.copy(), b, repeats=2, solver=solver, threshold=thr, max_rank=mr)
            if meta_problem(y1) is None and meta_problem(y2) is None:
                r.close(key + ':aliased-guess', vec(y1), vec(y2), 1e-10, 'initial_guess is right_hand_side')
            r.true(key + ':aliased-guess:distinct-result', y1 is not b, 'the solver returned its argument')
    # the rank-truncation threshold of MALS must not leak into the micro solves: an ill-conditioned HPD operator (cond 1e6)
    # with threshold 1e-4; the exact solution (all singular ratios of its unfoldings > 1e-2) is still a fixed point
    if meth == 'mals' and not binding and case['op'] == 'dense' and c in (False, True):
        from vt.core import unfolding_svals
        from scikit_tt.tensor_train import TT
        n = int(np.prod(dims))
        Q, _ = np.linalg.qr(rng.standard_normal((n, n)) + (1j * rng.standard_normal((n, n)) if c else 0))
        Aill = (Q * np.logspace(0, -6, n)) @ Q.conj().T
        Aill = (Aill + Aill.conj().T) / 2
        opi = TT(Aill.reshape(dims + dims))
        xa = xs2.reshape(dims + [1] * d)
        ratios = [unfolding_svals(xa, d, k_) for k_ in range(1, d)]
        if all(sv_[min(len(sv_), rg[k_ + 1]) - 1] / sv_[0] > 1e-2 for k_, sv_ in enumerate(ratios)):
            with r.op(key + ':ill-conditioned-fixed-point:call'):
                y = sle.mals(opi, xg, opi @ xg, repeats=1, solver=solver, threshold=1e-4, max_rank=np.inf)
                if meta_problem(y) is None and list(y.row_dims) == list(dims):
                    r.close(key + ':ill-conditioned-fixed-point', vec(y), xs2, 1e-5, 'threshold 1e-4, cond(A) 1e6')
        else:
            r.count('illcond_fixed_point_skipped')
    r.true(key + ':inputs-unchanged', unchanged(op, sop) and unchanged(b, sb) and unchanged(guess, sg),
           'operator, right-hand side or initial guess modified')
    return r
