"""C15 — transformed data tensors equal the tensor of basis-function products; single cores; Gram; HOCUR."""
import itertools
import numpy as np
from vt.core import R, rng_for, dn, meta_problem, quiet

ID = 'C15'
LEVEL = 'exploration'
RULE = ('complete enumeration of state dimension {1,2,3} x snapshot count {1,2,3,5} x number of modes {1,2,3} x per-mode function '
        'list (every window of length 1-3 over six family representatives) x data family (generic, repeated snapshots, integer values, integer dtype); hocur additionally on integer-dtype data, on data of magnitude 6, with an integer-valued (indicator) first mode, and on EVERY zero pattern of the data matrix (2-3 modes) '
        'for basis_decomposition; function lists x add_one x single_core for coordinate_major / function_major; gram over all '
        'pairs of snapshot counts; hocur over ranks {1..m, m+2} (int and list) x repeats {1,2} x multiplier {1,2,10}. Oracle: '
        'explicit loop over multi-indices and snapshots. Non-trivial: more than one mode or more than one snapshot.')
ASSUMPTIONS = ['HOCUR exactness is asserted only when the requested ranks are >= the snapshot count and the multiplier is >= every mode size after the '
               'first (then the initial column candidates are complete); otherwise only dimensions and rank bounds are asserted',
               'explicit Python loops over multi-indices are the reference']
CHUNK = 32
NREP = 6


def reps(coord):
    import scikit_tt.data_driven.transform as tdt
    return [tdt.ConstantFunction(coord), tdt.Identity(coord), tdt.Monomial(coord, 2), tdt.Sin(coord, 1.0), tdt.Cos(coord, 0.5),
            tdt.GaussFunction(coord, 0.0, 1.0)]


SCAL = [lambda t: 1.0, lambda t: t, lambda t: t ** 2, lambda t: np.sin(t), lambda t: np.cos(0.5 * t), lambda t: np.exp(-0.5 * t ** 2)]


def space(tier):
    return {'d': [1, 2, 3], 'm': [1, 2, 3, 5], 'modes': [1, 2, 3], 'functions per mode': [1, 2, 3], 'families': ['gauss', 'repeat', 'int'],
            'hocur ranks': '1..m, m+2', 'repeats': [1, 2], 'multiplier': [1, 2, 10]}


def windows(lengths=(1, 2, 3), starts=range(NREP)):
    return [(s, n) for n in lengths for s in starts]


def cases(tier):
    q = tier == 'quick'
    fams = ('gauss', 'repeat', 'int', 'intdtype')
    for d in (1, 2, 3):
        for m in ((1, 2, 3, 5) if q else (1, 2, 3, 5, 7)):
            for fam in fams:
                for p in ((1, 2, 3) if q else (1, 2, 3, 4)):
                    if p == 4:
                        for ws in itertools.product(*([windows((1, 2), (0, 3))] * 4)):
                            yield {'k': 'bd', 'd': d, 'm': m, 'fam': fam, 'ws': [list(w) for w in ws]}
                        continue
                    if p < 3:
                        wl = [windows()] * p
                    else:
                        wl = [windows((1, 2), (0, 2, 4))] * 3 if q else [windows((1, 2, 3), (0, 1, 3, 4))] * 3
                    for ws in itertools.product(*wl):
                        yield {'k': 'bd', 'd': d, 'm': m, 'fam': fam, 'ws': [list(w) for w in ws]}
                for (s, n) in windows():
                    for add_one in (True, False):
                        yield {'k': 'cmfm', 'd': d, 'm': m, 'fam': fam, 'w': [s, n], 'add_one': add_one}
    for d in (1, 2):
        for m1, m2 in itertools.product((1, 2, 3), repeat=2):
            for p in (1, 2, 3):
                for ws in itertools.product(*([windows((1, 3), (0, 3))] * p)):
                    yield {'k': 'gram', 'd': d, 'm1': m1, 'm2': m2, 'ws': [list(w) for w in ws]}
    for d in (1, 2):
        for m in (2, 3, 4):
            for p in (2, 3):
                for ws in itertools.product(*([windows((2, 3), (1, 3))] * p)):
                    for rk in list(range(1, m + 1)) + [m + 2]:
                        for rlist in (False, True):
                            for rep in (1, 2):
                                for mult in (1, 2, 10):
                                    yield {'k': 'hocur', 'd': d, 'm': m, 'ws': [list(w) for w in ws], 'rk': rk, 'rlist': rlist, 'rep': rep, 'mult': mult}
                    # integer-dtype data (distinct non-zero snapshots), and an integer-valued basis function (indicator) ahead of
                    # real-valued ones: the transformed tensor is real all the same
                    for fam in ('intdtype', 'indicator', 'big', 'repeat', 'repeat-lead'):
                        if fam == 'indicator' and p != 2:
                            continue          # (exact zeros of the tensor with >= 3 modes: see the recorded finding)
                        for rk in ((m, m + 2) if not fam.startswith('repeat') else (m - 1, m, m + 2)):
                            for mult in (2, 10):
                                yield {'k': 'hocur', 'd': d, 'm': m, 'ws': [list(w) for w in ws], 'rk': rk, 'rlist': False, 'rep': 1, 'mult': mult, 'fam': fam}
    # data with exact zeros (every zero pattern of the d x m data matrix, fixed non-zero values): the first basis functions
    # vanish there, so the initial column candidates (a fixed prefix, widened by `multiplier`) decide whether the ranks are found
    for d in (1, 2):
        for m in (2, 3, 4):
            for p in (2, 3):
                for ws in itertools.product(*([windows((2,), (1, 3))] * p)):
                    for mask in range(2 ** (d * m)):
                        for mult in (2, 10):
                            yield {'k': 'hocur', 'd': d, 'm': m, 'ws': [list(w) for w in ws], 'rk': m, 'rlist': False, 'rep': 1, 'mult': mult, 'mask': mask}


def data(rng, d, m, fam):
    if fam == 'int':
        return rng.integers(-2, 3, size=(d, m)).astype(float)
    if fam == 'intdtype':          # integer *dtype*: the transformed tensor is real-valued all the same
        return rng.integers(-2, 3, size=(d, m))
    x = rng.uniform(-1.5, 1.5, size=(d, m))
    if fam == 'repeat' and m > 1:
        x[:, -1] = x[:, 0]
    return x


def basis_from(ws, d):
    out = []
    for k, (s, n) in enumerate(ws):
        out.append([reps((k + j) % d)[(s + j) % NREP] for j in range(n)])
    return out


def psi_oracle(x, basis):
    m = x.shape[1]
    n = [len(b) for b in basis]
    out = np.zeros(n + [m])
    for j in range(m):
        vals = [[float(f(x[:, j])) for f in b] for b in basis]
        for idx in itertools.product(*[range(k) for k in n]):
            out[idx + (j,)] = np.prod([vals[k][idx[k]] for k in range(len(n))])
    return out


def check_tt(r, key, T, want):
    mp = meta_problem(T)
    if not r.true(key + ':meta', mp is None, mp):
        return False
    if not r.true(key + ':dims', list(T.row_dims) == list(want.shape) and all(c == 1 for c in T.col_dims), 'row dims %s expected %s' % (T.row_dims, want.shape)):
        return False
    return r.close(key + ':value', dn(T).reshape(want.shape), want, 1e-12)


def run_case(case, seed):
    import scikit_tt.data_driven.transform as tdt
    r = R(case)
    rng = rng_for(case, seed)
    k = case['k']
    if k == 'bd':
        d, m = case['d'], case['m']
        x = data(rng, d, m, case['fam']); x0 = x.copy()
        basis = basis_from(case['ws'], d)
        r.nontrivial = len(basis) > 1 or m > 1
        want = psi_oracle(x, basis)
        with r.op('basis_decomposition:call'):
            T = tdt.basis_decomposition(x, basis)
            if check_tt(r, 'basis_decomposition', T, want):
                for i in range(len(basis)):
                    c = tdt.basis_decomposition(x, basis, single_core=i)
                    r.true('basis_decomposition:single_core', isinstance(c, np.ndarray) and c.shape == T.cores[i].shape and np.array_equal(c, T.cores[i]),
                           'single_core=%d differs from core %d of the full train' % (i, i))
        r.true('basis_decomposition:data-unchanged', np.array_equal(x, x0))
        # call history: the caller refills the SAME snapshot buffer (next batch, centring in place) and calls again with the same
        # basis list: the result describes the buffer's current contents
        x[...] = 0.5 * x[:, ::-1] - 0.1
        want2 = psi_oracle(np.array(x), basis)
        with r.op('basis_decomposition:refilled-buffer:call'):
            T2 = tdt.basis_decomposition(x, basis)
            if check_tt(r, 'basis_decomposition:refilled-buffer', T2, want2):
                c2 = tdt.basis_decomposition(x, basis, single_core=len(basis) - 1)
                r.true('basis_decomposition:refilled-buffer:single_core', isinstance(c2, np.ndarray) and np.array_equal(c2, T2.cores[len(basis) - 1]),
                       'single core after the buffer was refilled')
    elif k == 'cmfm':
        d, m = case['d'], case['m']
        x = data(rng, d, m, case['fam']); x0 = x.copy()
        s, n = case['w']
        phi = [SCAL[(s + j) % NREP] for j in range(n)]
        r.nontrivial = d > 1 or m > 1 or n > 1
        # coordinate major: modes = coordinates, each of size n
        want = np.zeros([n] * d + [m])
        for j in range(m):
            for idx in itertools.product(range(n), repeat=d):
                want[idx + (j,)] = np.prod([phi[idx[c]](x[c, j]) for c in range(d)])
        with r.op('coordinate_major:call'):
            T = tdt.coordinate_major(x, phi)
            if check_tt(r, 'coordinate_major', T, want):
                for i in range(d):
                    c = tdt.coordinate_major(x, phi, single_core=i)
                    r.true('coordinate_major:single_core', isinstance(c, np.ndarray) and c.shape == T.cores[i].shape and np.array_equal(c, T.cores[i]), 'core %d' % i)
        # function major: modes = functions, each of size d (+1)
        a1 = case['add_one']
        sz = d + (1 if a1 else 0)
        want = np.zeros([sz] * n + [m])
        for j in range(m):
            g = [([1.0] if a1 else []) + [phi[kk](x[c, j]) for c in range(d)] for kk in range(n)]
            for idx in itertools.product(range(sz), repeat=n):
                want[idx + (j,)] = np.prod([g[kk][idx[kk]] for kk in range(n)])
        with r.op('function_major:call'):
            T = tdt.function_major(x, phi, add_one=a1)
            if check_tt(r, 'function_major' + (':add_one' if a1 else ''), T, want):
                for i in range(n):
                    c = tdt.function_major(x, phi, add_one=a1, single_core=i)
                    r.true('function_major:single_core', isinstance(c, np.ndarray) and c.shape == T.cores[i].shape and np.array_equal(c, T.cores[i]), 'core %d' % i)
        r.true('cmfm:data-unchanged', np.array_equal(x, x0))
        # user functions whose RETURN TYPE depends on the argument (a hinge written as max(t, 0) returns the integer 0 for negative
        # arguments, floats otherwise), with a negative first entry of the data matrix
        if d * m >= 2:
            xh = x.copy(); xh[0, 0] = -abs(xh[0, 0]) - 0.1
            if d * m > 1:
                xh.flat[1] = abs(xh.flat[1]) + 0.37
            phi_h = [lambda t: max(t, 0), lambda t: t * t + 0.5]
            want_h = np.zeros([2] * d + [m])
            for j in range(m):
                for idx in itertools.product(range(2), repeat=d):
                    want_h[idx + (j,)] = np.prod([float(phi_h[idx[c]](xh[c, j])) for c in range(d)])
            with r.op('coordinate_major:type-dependent-function:call'):
                Th = tdt.coordinate_major(xh, phi_h)
                if check_tt(r, 'coordinate_major:type-dependent-function', Th, want_h):
                    c0_ = tdt.coordinate_major(xh, phi_h, single_core=0)
                    r.true('coordinate_major:type-dependent-function:single_core', isinstance(c0_, np.ndarray) and np.array_equal(c0_, Th.cores[0]))
            with r.op('function_major:type-dependent-function:call'):
                want_f = np.zeros([d] * 2 + [m])
                for j in range(m):
                    g_ = [[float(phi_h[kk](xh[c, j])) for c in range(d)] for kk in range(2)]
                    for idx in itertools.product(range(d), repeat=2):
                        want_f[idx + (j,)] = g_[0][idx[0]] * g_[1][idx[1]]
                check_tt(r, 'function_major:type-dependent-function', tdt.function_major(xh, phi_h, add_one=False), want_f)
    elif k == 'gram':
        d = case['d']
        x1 = data(rng, d, case['m1'], 'gauss'); x2 = data(rng, d, case['m2'], 'gauss')
        basis = basis_from(case['ws'], d)
        r.nontrivial = True
        P1 = psi_oracle(x1, basis).reshape(-1, case['m1']); P2 = psi_oracle(x2, basis).reshape(-1, case['m2'])
        with r.op('gram:call'):
            G = tdt.gram(x1, x2, basis)
            r.close('gram:value', G, P1.T @ P2, 1e-12)
        # time-lagged windows of ONE trajectory array (overlapping views of the same buffer), and the same array twice
        mm = max(case['m1'], 2)
        z = data(rng, d, mm + 2, 'gauss')
        for lag in (1, 2):
            xa, xb = z[:, :mm], z[:, lag:mm + lag]
            Pa = psi_oracle(np.array(xa), basis).reshape(-1, mm); Pb = psi_oracle(np.array(xb), basis).reshape(-1, mm)
            with r.op('gram:views:call'):
                r.close('gram:views:value', tdt.gram(xa, xb, basis), Pa.T @ Pb, 1e-12, 'windows z[:, :m] and z[:, %d:m+%d] of one array' % (lag, lag))
        with r.op('gram:same-array:call'):
            r.close('gram:same-array:value', tdt.gram(x1, x1, basis), P1.T @ P1, 1e-12)
        # a mode that consists of indicator functions only (overlapping intervals): counts, not logical products
        if len(basis) <= 2:
            ib = [[tdt.IndicatorFunction(0, -2.0, 0.5), tdt.IndicatorFunction(0, -0.5, 2.0), tdt.IndicatorFunction(0, -0.2, 0.2)]] + basis[1:]
            Q1 = psi_oracle(x1, ib).reshape(-1, case['m1']); Q2 = psi_oracle(x2, ib).reshape(-1, case['m2'])
            with r.op('gram:indicator-mode:call'):
                r.close('gram:indicator-mode:value', np.asarray(tdt.gram(x1, x2, ib), dtype=float), Q1.T @ Q2, 1e-12)
    else:
        d, m = case['d'], case['m']
        if 'mask' in case:
            x = np.array([[0.3 + 0.37 * j - 0.21 * c + 0.05 * j * j for j in range(m)] for c in range(d)])
            for kk, (c, j) in enumerate(itertools.product(range(d), range(m))):
                if case['mask'] >> kk & 1:
                    x[c, j] = 0.0
        elif case.get('fam') == 'intdtype':
            perm = [3, 1, 4, 2, 5][:m]
            x = np.array([[perm[j] if c == 0 else ((perm[j] * 2 + c) % (m + 1)) + 1 for j in range(m)] for c in range(d)], dtype=np.int64)
            x = x[:, np.argsort(perm)[::-1]]
        else:
            x = data(rng, d, m, 'repeat' if case.get('fam') == 'repeat' else 'gauss')
            if case.get('fam') == 'repeat-lead' and m > 1:
                x[:, 1] = x[:, 0]           # the first two snapshots coincide: the leading column candidates are rank deficient
            if case.get('fam') == 'big':
                x = 6.0 * x                 # transformed entries up to ~1e4: rank decisions must be relative to the data's scale
        x0 = x.copy()
        basis = basis_from(case['ws'], d)
        if case.get('fam') == 'indicator':
            # first mode: indicator functions of a partition of the range of coordinate 0 (integer-valued), then real-valued functions
            basis[0] = [tdt.IndicatorFunction(0, -10.0, 0.0), tdt.IndicatorFunction(0, 0.0, 10.0)]
        n = [len(b) for b in basis]
        p = len(basis)
        rk = case['rk']
        ranks = [1] + [rk] * p + [1] if case['rlist'] else rk
        ranks_given = list(ranks) if isinstance(ranks, list) else ranks
        want = psi_oracle(x, basis)
        r.nontrivial = True
        complete = rk >= m and case['mult'] >= max(n[1:] + [1])
        if str(case.get('fam')).startswith('repeat') and rk == m - 1:
            # a repeated snapshot: the true ranks are at most m-1, so rank m-1 is still admissible when it covers them
            tr = [np.linalg.matrix_rank(want.reshape(int(np.prod(want.shape[:k_])), -1), tol=1e-9 * np.abs(want).max()) for k_ in range(1, want.ndim)]
            complete = rk >= max(tr) and case['mult'] >= max(n[1:] + [1])
        key = 'hocur' + (':complete-candidates' if complete else ':partial-candidates')
        if 'mask' in case:
            if not np.any(want):
                r.skipped += 1          # zero tensor (D8)
                return r
            if p >= 3 and case['mask']:
                # recorded limitation (known_findings.json): with >= 3 modes and exact zeros in the data the fixed prefix of
                # initial column candidates can miss the column space; ranks are then under-estimated and never recover
                try:
                    with quiet():
                        T = tdt.hocur(x, basis, ranks, repeats=1, multiplier=case['mult'], progress=False)
                    ok = meta_problem(T) is None and np.linalg.norm(dn(T).reshape(want.shape) - want) <= 1e-8 * np.linalg.norm(want)
                except Exception:
                    ok = False
                r.true('hocur:zeros-in-data:three-or-more-modes:column-candidates-miss-the-column-space', ok,
                       'hocur does not reproduce the tensor although ranks >= true ranks (mask %d, multiplier %d)' % (case['mask'], case['mult']))
                r.outcome = 'hocur-zeros-3modes-' + ('exact' if ok else 'inexact')
                return r
            key = 'hocur:zeros-in-data:two-modes' if case['mask'] else 'hocur:complete-candidates'
            complete = True
        prefix_spans = True
        if case.get('fam') == 'repeat-lead' and rk == m - 1 and complete:
            # do the first `rk` snapshots already span the column spaces of the unfoldings of the earlier modes?
            sub = want[..., :rk]
            trp = [np.linalg.matrix_rank(sub.reshape(int(np.prod(sub.shape[:k_])), -1), tol=1e-9 * np.abs(want).max()) for k_ in range(1, want.ndim - 1)]
            prefix_spans = trp == tr[:-1] and case['mult'] * rk >= m
        if not prefix_spans:
            # recorded limitation (known_findings.json), second input class of the same cause: the column candidates of the
            # earlier modes are built from the FIRST `rank` snapshot indices only, so with ranks == number of distinct snapshots
            # and a duplicate among the leading snapshots they span too little and the ranks are under-estimated
            try:
                with quiet():
                    T = tdt.hocur(x, basis, ranks, repeats=case['rep'], multiplier=case['mult'], progress=False)
                ok = meta_problem(T) is None and np.linalg.norm(dn(T).reshape(want.shape) - want) <= 1e-8 * np.linalg.norm(want)
            except Exception:
                ok = False
            r.true('hocur:repeated-leading-snapshot:ranks-equal-distinct-snapshots:column-candidates-miss-the-column-space', ok,
                   'hocur does not reproduce the tensor although ranks %d >= true ranks %s (multiplier %d)' % (rk, tr, case['mult']))
            r.outcome = 'hocur-repeat-lead-' + ('exact' if ok else 'inexact')
            r.true('hocur:data-unchanged', np.array_equal(x, x0))
            return r
        with r.op(key + ':call'):
            with quiet():
                T = tdt.hocur(x, basis, ranks, repeats=case['rep'], multiplier=case['mult'], progress=False)
            mp = meta_problem(T)
            if r.true(key + ':meta', mp is None, mp) and r.true(key + ':dims', list(T.row_dims) == n + [m], 'row dims %s' % T.row_dims):
                r.true(key + ':rank-bound', all(a <= min(rk, m) for a in T.ranks[1:-1]), 'ranks %s requested %s' % (T.ranks, rk))
                if complete:
                    r.close(key + ':value', dn(T).reshape(want.shape), want, 1e-8)
                    r.outcome = 'hocur-exact-checked'
                else:
                    r.outcome = 'hocur-shape-only'
        r.true('hocur:data-unchanged', np.array_equal(x, x0))
        r.true('hocur:rank-list-unchanged', ranks == ranks_given, 'the caller\'s rank list was modified: %s -> %s' % (ranks_given, ranks))
    return r
