"""C08 — ALS eigen-solver: consistent Ritz pairs, exact eigenpairs kept, deflation = shifted operator; power iteration."""
import itertools
import numpy as np
import scipy.linalg as sl
from vt.core import R, rng_for, rand_cores, tt_from, mat, vec, admissible_ranks, max_ranks, snap, unchanged, meta_problem
from vt import monitors as mon

ID = 'C08'
LEVEL = 'exploration'
RULE = ('complete enumeration of order x mode sizes x dtype x (standard | generalised with HPD right operator) x EVERY '
        'admissible guess rank vector x solver {eig, eigh, eigs}; per point: number_ev {1,2}, repeats {1,2,3}, sigma '
        '{above the spectrum, interior}, deflation sets {[], [v1], [v1,v2], [v1,v2,generic]} x shifts {-1,-5} (exact eigentensors and generic '
        'tensors), exact dominant eigentensor as guess, maximal-rank guess, power iteration; a monitor on every micro-step '
        'checks micro matrices = F^H (A + shift*sum p p^H) F and F^H B F for the current frame and the monotone Ritz '
        'sequence. Non-trivial: complex data, a generalised problem, a deflation set, or a guess rank > 1.')
ASSUMPTIONS = ['scipy.linalg.eigh of the matricised pencil is the reference', 'guess right-orthonormal (D4) with admissible ranks (D5)',
               'eigs only where every micro dimension >= number_ev + 2 (D9)', 'prescribed, well separated spectra (gaps >= 0.3)',
               'maximal-rank exactness is asserted for the extremal pair only (eigh, or sigma above the spectrum)']
CHUNK = 4
STATE = {'mon': None}


def space(tier):
    q = tier == 'quick'
    return {'orders': [1, 2, 3] if q else [1, 2, 3, 4], 'dims': [2, 3], 'gevp': [False, True], 'solver': ['eig', 'eigh', 'eigs'],
            'number_ev': [1, 2], 'repeats': [1, 2, 3], 'previous': ['[]', '[v1]', '[v1,v2]', 'generic'], 'shift': [-1, -5]}


def cases(tier):
    q = tier == 'quick'
    for d in ([1, 2, 3] if q else [1, 2, 3, 4]):
        for dims in itertools.product([2, 3] if (q or d > 2) else [2, 3, 4], repeat=d):
            if d == 4 and np.prod(dims) > 36:
                continue
            # 'gtail': real operator, guess with complex entries from its second core on; 'optail': real-valued operator whose
            # cores carry a complex dtype from the second core on (mixed dtypes inside one train)
            for c in (False, True, 'gtail', 'optail'):
                if c in ('gtail', 'optail') and d == 1:
                    continue
                for g in (False, True):
                    for rg in admissible_ranks(list(dims)):
                        for solver in ('eig', 'eigh', 'eigs'):
                            if c in ('gtail', 'optail') and solver == 'eigs':
                                continue
                            yield {'dims': list(dims), 'c': c, 'gevp': g, 'rg': rg, 'solver': solver}


class Monitor:
    def __init__(self, r, Aeff, B, dims, key, check_ritz):
        self.r = r; self.A = Aeff; self.B = B; self.dims = dims; self.key = key
        self.ritz = []; self.check_ritz = check_ritz

    def before(self, i, micro_op, micro_gevp, solution, direction):
        cores = [c if c.ndim == 4 else c[..., 0] for c in solution.cores]
        F = mon.frame(cores, i, 1, self.dims)
        want = F.conj().T @ self.A @ F
        self.r.close(self.key + ':micro-matrix', micro_op, want, 1e-9, '%s core %d' % (direction, i))
        if self.B is not None:
            self.r.close(self.key + ':micro-matrix-gevp', micro_gevp, F.conj().T @ self.B @ F, 1e-9, '%s core %d' % (direction, i))

    def after(self, ev):
        if self.check_ritz:
            lam = float(np.real(np.atleast_1d(ev)[0]))
            if self.ritz:
                self.r.le(self.key + ':ritz-monotone', self.ritz[-1], lam, 1e-9 * (1 + abs(lam)), 'largest Ritz value decreased along the sweep')
            self.ritz.append(lam)


def _install():
    from scikit_tt.solvers import evp

    def wrap(orig):
        def w(i, micro_op, micro_op_gevp, number_ev, solution, solver, sigma, real, direction):
            m = STATE['mon']
            if m is not None:
                m.before(i, np.array(micro_op), None if micro_op_gevp is None else np.array(micro_op_gevp), solution, direction)
            ev = orig(i, micro_op, micro_op_gevp, number_ev, solution, solver, sigma, real, direction)
            if m is not None:
                m.after(ev)
            return ev
        return w
    mon.install(evp, '__update_core', wrap)


def unit(v):
    return v / np.linalg.norm(v)


def overlap(x, v):
    return abs(np.vdot(x, v)) / (np.linalg.norm(x) * np.linalg.norm(v))


def run_case(case, seed):
    from scikit_tt.tensor_train import TT
    from scikit_tt.solvers import evp
    _install()
    r = R(case)
    rng = rng_for(case, seed)
    dims, cc, g, rg, solver = case['dims'], case['c'], case['gevp'], case['rg'], case['solver']
    c = cc is True
    d = len(dims); n = int(np.prod(dims))
    r.nontrivial = bool(cc) or g or max(rg) > 1

    def rnd(shape):
        a = rng.standard_normal(shape)
        return a + 1j * rng.standard_normal(shape) if c else a
    # right operator
    if g:
        Bm = rnd((n, n)); Bm = Bm.conj().T @ Bm / n + np.eye(n)
        L = np.linalg.cholesky(Bm)
        Bop = TT(Bm.reshape(dims + dims))
    else:
        Bm = None; L = np.eye(n); Bop = None
    # prescribed spectrum, dominant eigenvector representable with ranks rg
    lam = np.array([3.0 - 0.45 * k for k in range(n)])[:n]
    v1t = tt_from(rand_cores(rng, dims, [1] * d, rg, c))
    v1 = vec(v1t)
    q1 = unit(L.conj().T @ v1)
    M = rnd((n, n)); M[:, 0] = q1
    Q, _ = np.linalg.qr(M)
    Q[:, 0] = q1 * (np.vdot(q1, Q[:, 0]) / abs(np.vdot(q1, Q[:, 0])))
    Q, _ = np.linalg.qr(Q)
    C = (Q * lam) @ Q.conj().T
    C = (C + C.conj().T) / 2
    A = L @ C @ L.conj().T
    A = (A + A.conj().T) / 2
    Aop = TT(A.reshape(dims + dims))
    if cc == 'optail':
        Aop = TT([x_ if i_ == 0 else x_.astype(complex) for i_, x_ in enumerate(Aop.cores)])
        if Bop is not None:
            Bop = TT([x_ if i_ == 0 else x_.astype(complex) for i_, x_ in enumerate(Bop.cores)])
    evals, evecs = sl.eigh(A, Bm)          # ascending; generalised eigenvectors B-orthonormal
    lmax = evals[-1]
    vdom = evecs[:, -1]
    guess = tt_from(rand_cores(rng, dims, [1] * d, rg, 'tail' if cc == 'gtail' else c)); guess.ortho_right()
    sA, sG = snap(Aop), snap(guess)
    sB = snap(Bop) if g else None
    micro_dims = [rg[i] * dims[i] * rg[i + 1] for i in range(d)]
    kw0 = dict(operator_gevp=Bop, solver=solver, conv_eps=0)
    key = 'evp.als:' + solver + (':gevp' if g else '')
    ismax = list(rg) == max_ranks(dims)

    def rq(x, Aeff):
        den = np.vdot(x, (Bm @ x) if g else x)
        return np.real(np.vdot(x, Aeff @ x) / den)

    def run(guess_, Aeff, monitor_ritz, **kw):
        m = Monitor(r, Aeff, Bm, dims, key, monitor_ritz)
        STATE['mon'] = m
        try:
            return evp.als(Aop, guess_, **kw)
        finally:
            STATE['mon'] = None

    def check_pair(lam_, x, Aeff, tag):
        mp = meta_problem(x)
        if not r.true(key + ':meta', mp is None, '%s %s' % (tag, mp)):
            return None
        if not r.true(key + ':dims', list(x.row_dims) == list(dims) and list(x.col_dims) == [1] * d, tag):
            return None
        xv = vec(x)
        r.true(key + ':rayleigh', abs(rq(xv, Aeff) - lam_) <= 1e-8 * (1 + abs(lam_)), '%s: returned %r, Rayleigh quotient of returned tensor %r' % (tag, lam_, rq(xv, Aeff)))
        if not g:
            r.true(key + ':unit-norm', abs(np.linalg.norm(xv) - 1) <= 1e-8, '%s: norm %r' % (tag, np.linalg.norm(xv)))
        return xv

    for nev in (1, 2):
        if solver == 'eigs' and min(micro_dims) < nev + 2:
            r.count('eigs_skipped_D9')
            continue
        if min(micro_dims) < nev:
            continue
        near0 = float(evals[int(np.argmin(np.abs(evals)))])
        for sig_name, sigma in (('above', lmax + 0.5), ('interior', float(evals[len(evals) // 2] + 0.1)), ('zero', 0), ('zero', 0.0)):
            if solver == 'eigh' and sig_name != 'above':
                continue
            prevd = None
            for reps in (1, 2, 3):
                with r.op(key + ':call'):
                    ev, xt, its = run(guess, A, solver == 'eigh' and nev == 1, number_ev=nev, repeats=reps, sigma=sigma, **kw0)
                    r.true(key + ':iterations', its == reps, 'iterations %r repeats %r' % (its, reps))
                    evl = [ev] if nev == 1 else list(ev)
                    xl = [xt] if nev == 1 else list(xt)
                    r.true(key + ':result-count', len(evl) == nev and len(xl) == nev)
                    for j in range(nev):
                        check_pair(float(np.real(evl[j])), xl[j], A, 'nev=%d j=%d reps=%d sigma=%s' % (nev, j, reps, sig_name))
                        r.le(key + ':below-lambda-max', float(np.real(evl[j])), lmax, 1e-8 * (1 + abs(lmax)))
                    if nev == 1 and reps == 1 and sig_name == 'above' and solver != 'eigs':
                        # real=False only stops the routine from taking real parts: for a Hermitian pencil the same pair, with an
                        # eigenvalue whose imaginary part vanishes up to rounding
                        ev_c, xt_c, _ = run(guess, A, False, number_ev=1, repeats=1, sigma=sigma, real=False, **kw0)
                        r.true(key + ':real-flag', abs(complex(ev_c) - float(np.real(evl[0]))) <= 1e-8 * (1 + abs(lmax)), 'real=False: %r, real=True: %r' % (ev_c, evl[0]))
                        xc_ = check_pair(float(np.real(ev_c)), xt_c, A, 'real=False')
                    if nev == 1:
                        dist = abs(float(np.real(evl[0])) - sigma)
                        if prevd is not None:
                            r.le(key + ':target-distance-monotone', dist, prevd, 1e-9 * (1 + abs(sigma)), 'reps %d sigma %s' % (reps, sig_name))
                        prevd = dist
                        if (ismax or d == 1) and sig_name == 'zero':
                            # sigma exactly zero is a target like any other. With maximal ranks one micro problem of the sweep is the
                            # full pencil, so from then on the selected Ritz value is at least as close to the target as the
                            # eigenvalue nearest to it (a later, smaller frame may offer an even closer spurious Ritz value, which
                            # is the usual behaviour of Rayleigh-Ritz for interior targets); for order 1 it is that eigenvalue
                            r.le(key + ':sigma-zero:not-farther-than-nearest-eigenvalue', abs(float(np.real(evl[0])) - 0.0), abs(near0), 1e-7 * (1 + abs(near0)),
                                 'sigma=%r: lambda %r, eigenvalue nearest to zero %r' % (sigma, evl[0], near0))
                            if d == 1:
                                r.true(key + ':sigma-zero:exact', abs(float(np.real(evl[0])) - near0) <= 1e-7 * (1 + abs(near0)), 'lambda %r vs %r' % (evl[0], near0))
                        if (ismax or d == 1) and sig_name == 'above':
                            r.true(key + ':exact-at-max-rank', abs(float(np.real(evl[0])) - lmax) <= 1e-8 * (1 + abs(lmax)) and
                                   overlap(vec(xl[0]), vdom) >= 1 - 1e-8, 'lambda %r vs %r, overlap %r' % (evl[0], lmax, overlap(vec(xl[0]), vdom)))
    # (d) exact dominant eigentensor as guess (representable with ranks rg) is kept, already after one sweep
    if not (solver == 'eigs' and min(micro_dims) < 3):
        g1 = v1t.copy(); g1.ortho_right()
        with r.op(key + ':fixed-point:call'):
            ev, xt, _ = run(g1, A, False, number_ev=1, repeats=1, sigma=lmax + 0.5, **kw0)
            xv = check_pair(float(np.real(ev)), xt, A, 'fixed-point')
            if xv is not None:
                r.true(key + ':fixed-point', abs(float(np.real(ev)) - lmax) <= 1e-8 * (1 + abs(lmax)) and overlap(xv, v1) >= 1 - 1e-8,
                       'lambda %r vs %r, overlap %r' % (ev, lmax, overlap(xv, v1)))
    # (d2) a maximal-rank guess taken straight from a library constructor (tt.ones with maximal ranks: every unfolding has rank
    # one, the representation ranks are what counts) and handed over as it is, not orthonormalised by the caller
    if ismax and d >= 2 and not g and solver in ('eig', 'eigh') and max(rg) > 1:
        import scikit_tt.tensor_train as ttm
        g2 = ttm.ones(list(dims), [1] * d, ranks=list(rg))
        s2 = snap(g2)
        with r.op(key + ':constructor-guess:call'):
            ev, xt, _ = run(g2, A, False, number_ev=1, repeats=1, sigma=lmax + 0.5, **kw0)
            xv = check_pair(float(np.real(ev)), xt, A, 'constructor-guess')
            if xv is not None:
                r.true(key + ':constructor-guess:exact-at-max-rank', abs(float(np.real(ev)) - lmax) <= 1e-8 * (1 + abs(lmax)) and overlap(xv, vdom) >= 1 - 1e-8,
                       'guess tt.ones(ranks=%s): lambda %r vs %r, overlap %r, ranks returned %s' % (rg, ev, lmax, overlap(xv, vdom), xt.ranks))
        r.true(key + ':constructor-guess:guess-unchanged', unchanged(g2, s2))
    # (f) deflation with shift == explicitly shifted operator
    if solver != 'eigs' or min(micro_dims) >= 3:
        gen = tt_from(rand_cores(rng, dims, [1] * d, [1] * (d + 1), c)); gen = (1.0 / gen.norm()) * gen
        e1 = TT(np.array(evecs[:, -1]).reshape(dims + [1] * d)); e2 = TT(np.array(evecs[:, -2]).reshape(dims + [1] * d)) if n > 1 else None
        sets = [('v1', [e1])] + ([('v1v2', [e1, e2])] if e2 is not None else []) + [('generic', [gen])]
        if e2 is not None and n > 2:
            sets.append(('v1v2generic', [e1, e2, gen]))          # three deflation terms (accumulation over more than two)
        for pname, P in sets:
            sP = [snap(p) for p in P]
            for shift in (-1.0, -5.0):
                Aeff = A + shift * sum(np.outer(vec(p), vec(p).conj()) for p in P)
                Aeff = (Aeff + Aeff.conj().T) / 2
                evs2 = sl.eigh(Aeff, Bm, eigvals_only=True)
                sigma = float(evs2[-1] + 0.5)
                with r.op(key + ':deflation:call'):
                    ev, xt, _ = run(guess, Aeff, False, previous=P, shift=shift, number_ev=1, repeats=2, sigma=sigma, **kw0)
                    xv = check_pair(float(np.real(ev)), xt, Aeff, 'deflation %s shift %g' % (pname, shift))
                    STATE['mon'] = None
                    ev2, xt2, _ = evp.als(TT(Aeff.reshape(dims + dims)), guess, number_ev=1, repeats=2, sigma=sigma, **kw0)
                    if xv is not None and meta_problem(xt2) is None:
                        r.true(key + ':deflation-equals-shifted-operator', abs(np.real(ev) - np.real(ev2)) <= 1e-7 * (1 + abs(ev2)) and
                               overlap(xv, vec(xt2)) >= 1 - 1e-7, '%s shift %g: %r vs %r overlap %r' % (pname, shift, ev, ev2, overlap(xv, vec(xt2))))
                r.true(key + ':previous-unchanged', all(unchanged(p, s_) for p, s_ in zip(P, sP)))
    r.true(key + ':inputs-unchanged', unchanged(Aop, sA) and unchanged(guess, sG) and (not g or unchanged(Bop, sB)), 'operator(s) or guess modified')

    # (h) inverse power iteration from a maximal-rank guess (once per operator: attached to the eig / all-ones-rank point)
    if solver == 'eig' and all(x == 1 for x in rg[1:-1]):
        gm = tt_from(rand_cores(rng, dims, [1] * d, max_ranks(dims), c))
        sgm = snap(gm)
        for target in (len(evals) - 1, len(evals) // 2):
            sigma = float(evals[target] + 0.04)
            with r.op('power_method:call'):
                lam_, x = evp.power_method(Aop, gm, operator_gevp=Bop, repeats=25, sigma=sigma)
                mp = meta_problem(x)
                if r.true('power_method:meta', mp is None, mp):
                    xv = vec(x)
                    r.true('power_method:rayleigh', abs(lam_ - np.vdot(xv, A @ xv) / np.vdot(xv, (Bm @ xv) if g else xv)) <= 1e-8 * (1 + abs(lam_)),
                           'reported %r, Rayleigh quotient %r' % (lam_, np.vdot(xv, A @ xv) / np.vdot(xv, (Bm @ xv) if g else xv)))
                    r.true('power_method:converged', abs(lam_ - evals[target]) <= 1e-7 and overlap(xv, (Bm @ evecs[:, target]) if False else evecs[:, target]) >= 1 - 1e-7,
                           'sigma %g: got %r expected %r overlap %r' % (sigma, lam_, evals[target], overlap(xv, evecs[:, target])))
            # a shift that agrees with the eigenvalue to 13 digits (the converged estimate of an earlier run): the nearly singular solve
            # is what inverse iteration lives on -- it amplifies the wanted direction and must converge at once
            with r.op('power_method:close-shift:call'):
                lam_, x = evp.power_method(Aop, gm, operator_gevp=Bop, repeats=3, sigma=float(evals[target]) + 1e-13 * (1 + abs(float(evals[target]))))
                if meta_problem(x) is None and np.all(np.isfinite(vec(x))):
                    xv = vec(x)
                    r.true('power_method:close-shift:converged', abs(lam_ - evals[target]) <= 1e-7 and overlap(xv, evecs[:, target]) >= 1 - 1e-7,
                           'shift = eigenvalue + 1e-13: got %r expected %r overlap %r' % (lam_, evals[target], overlap(xv, evecs[:, target])))
                else:
                    r.count('power_method_close_shift_singular')
            for reps in (1, 2, 3):
                with r.op('power_method:call'):
                    lam_, x = evp.power_method(Aop, gm, operator_gevp=Bop, repeats=reps, sigma=float(evals[target] + 0.3))
                    if meta_problem(x) is None:
                        xv = vec(x)
                        want_rq = np.vdot(xv, A @ xv) / np.vdot(xv, (Bm @ xv) if g else xv)
                        r.true('power_method:rayleigh:unconverged', abs(lam_ - want_rq) <= 1e-8 * (1 + abs(want_rq)),
                               'repeats=%d: reported %r, Rayleigh quotient of the returned tensor %r' % (reps, lam_, want_rq))
                        if not g:
                            r.true('power_method:unit-norm', abs(np.linalg.norm(xv) - 1) <= 1e-8, 'norm %r' % np.linalg.norm(xv))
        r.true('power_method:inputs-unchanged', unchanged(gm, sgm) and unchanged(Aop, sA), 'power_method modified its inputs')
    return r
