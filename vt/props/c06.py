"""C06 — no hidden mutation or aliasing across call histories: explicit-state BFS over API-call histories."""
import itertools
import numpy as np
from vt.core import R, rng_for, rand_cores, max_ranks, quiet
from vt import explorer as ex
from vt.explorer import Op, System

ID = 'C06'
LEVEL = 'model_checking'
ASSUMPTIONS = ['values are excluded from the canonical state: every branch on the explored paths tests shapes, flags, '
               'dtypes or identities, never entries (value-dependent truncation is disabled by the chosen arguments)',
               'enabledness is decided from metadata only; an enabled call must not raise',
               'pool capacity 5 (oldest non-initial object evicted); at most 2 in-place transitions per history']
MODES = ['last-first', 'last-last', 'first-last', 'first-first']


# ------------------------------------------------------------------------------------------------- predicates
def b1(t):
    return t.ranks[0] == 1 and t.ranks[-1] == 1


def isvec(t):
    return all(c == 1 for c in t.col_dims)


def isop(t):
    return list(t.row_dims) == list(t.col_dims) and any(c > 1 for c in t.col_dims)


def admissible(t):
    mr = max_ranks([a * b for a, b in zip(t.row_dims, t.col_dims)])
    return all(r <= m for r, m in zip(t.ranks, mr))


def td_enabled(a, b, k, mode):
    if k > a.order or k > b.order:
        return False
    sa = slice(a.order - k, a.order) if mode.startswith('last') else slice(0, k)
    sb = slice(0, k) if mode.endswith('first') else slice(b.order - k, b.order)
    if list(a.row_dims[sa]) != list(b.row_dims[sb]) or list(a.col_dims[sa]) != list(b.col_dims[sb]):
        return False
    ra = a.ranks[-1] if mode.startswith('last') else a.ranks[0]
    rb = b.ranks[0] if mode.endswith('first') else b.ranks[-1]
    return ra == 1 and rb == 1


def O(sys_, s):
    return sys_.objs[s]


# ------------------------------------------------------------------------------------------------------- alphabet
def build_ops():
    import scikit_tt.tensor_train as tt
    from scikit_tt.solvers import sle, evp, ode
    ops = []

    def add(name, arity, en, run, **kw):
        if name.split('.')[0] in ('sle', 'evp', 'ode'):
            kw.setdefault('may_raise', True)
        if name.startswith('ode.') and not name.startswith('ode.krylov') and not name.startswith('ode.errors'):
            # the integrators return the trajectory [initial_value, state 1, ...]: position 0 IS the initial-value argument
            kw.setdefault('hands_back', 0 if 'splitting' in name else 1)
        ops.append(Op(name, arity, en, run, **kw))
    # ---- constructors, sized like a live object: new objects every time, with their defining values (hidden module state)
    import scikit_tt.tensor_train as ttm

    def dense_of(rows, cols, fill):
        # layout of vt.core.dense_cores: (1, m_1..m_d, n_1..n_d, 1)
        d_ = len(rows)
        if fill == 'eye':
            out = np.eye(int(np.prod(rows))).reshape(list(rows) + list(rows))
            return out.reshape([1] + list(rows) + list(rows) + [1])
        val = {'ones': 1.0, 'zeros': 0.0}[fill]
        return np.full([1] + list(rows) + list(cols) + [1], val)
    ctor_en = lambda s, i: b1(O(s, i)) and O(s, i).order <= 4
    add('tt.eye(like)', 1, ctor_en, lambda s, a: ttm.eye(list(a.row_dims)), always=True, oracle=lambda s, a: dense_of(list(a.row_dims), None, 'eye'))
    add('tt.ones(like)', 1, ctor_en, lambda s, a: ttm.ones(list(a.row_dims), list(a.col_dims)), always=True,
        oracle=lambda s, a: dense_of(list(a.row_dims), list(a.col_dims), 'ones'))
    add('tt.zeros(like)', 1, ctor_en, lambda s, a: ttm.zeros(list(a.row_dims), list(a.col_dims)), always=True,
        oracle=lambda s, a: dense_of(list(a.row_dims), list(a.col_dims), 'zeros'))
    add('tt.unit(like)', 1, ctor_en, lambda s, a: ttm.unit(list(a.row_dims), [0] * a.order), always=True)
    add('tt.uniform(like)', 1, ctor_en, lambda s, a: ttm.uniform(list(a.row_dims), ranks=2), always=True)
    # ---- binary value operations
    same = lambda s, i, j: b1(O(s, i)) and b1(O(s, j)) and list(O(s, i).row_dims) == list(O(s, j).row_dims) and \
        list(O(s, i).col_dims) == list(O(s, j).col_dims) and O(s, i).order == O(s, j).order
    add('add', 2, same, lambda s, a, b: a + b)
    add('sub', 2, same, lambda s, a, b: a - b)
    add('matmul', 2, lambda s, i, j: b1(O(s, i)) and b1(O(s, j)) and list(O(s, i).col_dims) == list(O(s, j).row_dims)
        and O(s, i).order == O(s, j).order, lambda s, a, b: a @ b)
    for mode in MODES:
        for k in (1, 2, 3):
            add('tensordot(%s,%d)' % (mode, k), 2, (lambda m, kk: lambda s, i, j: td_enabled(O(s, i), O(s, j), kk, m))(mode, k),
                (lambda m, kk: lambda s, a, b: a.tensordot(b, kk, mode=m))(mode, k), base='tensordot')
    add('concatenate(tt)', 2, lambda s, i, j: O(s, i).ranks[-1] == O(s, j).ranks[0], lambda s, a, b: a.concatenate(b),
        base='concatenate')
    add('concatenate(list)', 2, lambda s, i, j: O(s, i).ranks[-1] == O(s, j).ranks[0],
        lambda s, a, b: a.concatenate(b.cores), base='concatenate')
    add('residual_error', 3, lambda s, i, j, k: b1(O(s, i)) and b1(O(s, j)) and b1(O(s, k)) and isvec(O(s, j)) and
        isvec(O(s, k)) and list(O(s, i).col_dims) == list(O(s, j).row_dims) and
        list(O(s, i).row_dims) == list(O(s, k).row_dims) and O(s, i).order == O(s, j).order == O(s, k).order,
        lambda s, a, x, b: tt.residual_error(a, x, b))
    # ---- unary value operations
    true1 = lambda s, i: True
    add('mul', 1, true1, lambda s, a: a * 2.0)
    add('rmul', 1, true1, lambda s, a: 0.5 * a)
    add('transpose', 1, true1, lambda s, a: a.transpose())
    add('transpose(conj)', 1, true1, lambda s, a: a.transpose(conjugate=True), base='transpose')
    add('transpose(cores=[0])', 1, true1, lambda s, a: a.transpose(cores=[0]), base='transpose')
    add('transpose(cores=[-1])', 1, lambda s, i: O(s, i).order >= 2, lambda s, a: a.transpose(cores=[a.order - 1], conjugate=True), base='transpose')
    add('conj', 1, true1, lambda s, a: a.conj())
    add('rank_transpose', 1, true1, lambda s, a: a.rank_transpose())
    add('rank_tensordot(last)', 1, true1, lambda s, a: a.rank_tensordot(np.arange(1.0, 1 + a.ranks[-1] * 2).reshape(a.ranks[-1], 2), mode='last'),
        base='rank_tensordot')
    add('rank_tensordot(first)', 1, true1, lambda s, a: a.rank_tensordot(np.arange(1.0, 1 + a.ranks[0] * 2).reshape(2, a.ranks[0]), mode='first'),
        base='rank_tensordot')
    add('copy', 1, true1, lambda s, a: a.copy())
    add('tt2qtt', 1, true1, lambda s, a: a.tt2qtt([[m] for m in a.row_dims], [[n] for n in a.col_dims]))
    add('tt2qtt(split)', 1, lambda s, i: O(s, i).row_dims[0] == 4 and O(s, i).col_dims[0] in (1, 4),
        lambda s, a: a.tt2qtt([[2, 2]] + [[m] for m in a.row_dims[1:]],
                              [[2, 2] if a.col_dims[0] == 4 else [1, 1]] + [[n] for n in a.col_dims[1:]]), base='tt2qtt')
    add('qtt2tt', 1, lambda s, i: O(s, i).order >= 2, lambda s, a: a.qtt2tt([2] + [1] * (a.order - 2)))
    add('svd', 1, lambda s, i: isvec(O(s, i)) and O(s, i).order >= 2, lambda s, a: a.svd(1))
    add('svd(last)', 1, lambda s, i: isvec(O(s, i)) and O(s, i).order >= 3, lambda s, a: a.svd(a.order - 1), base='svd')
    add('svd(no sweeps)', 1, lambda s, i: isvec(O(s, i)) and O(s, i).order >= 2, lambda s, a: a.svd(1, ortho_l=False, ortho_r=False), base='svd')
    add('svd(ortho_r=False,max_rank)', 1, lambda s, i: isvec(O(s, i)) and O(s, i).order >= 2, lambda s, a: a.svd(a.order - 1, ortho_r=False, max_rank=1),
        base='svd')
    add('pinv', 1, lambda s, i: isvec(O(s, i)) and O(s, i).order >= 2 and b1(O(s, i)) and admissible(O(s, i)),
        lambda s, a: a.pinv(1, threshold=1e-10))
    add('pinv(no sweeps)', 1, lambda s, i: isvec(O(s, i)) and O(s, i).order >= 2 and b1(O(s, i)) and admissible(O(s, i)),
        lambda s, a: a.pinv(1, threshold=1e-10, ortho_l=False, ortho_r=False), base='pinv', may_raise=True)
    add('tt2qtt(dummy-factors)', 1, lambda s, i: O(s, i).order <= 4, lambda s, a: a.tt2qtt([[m, 1] for m in a.row_dims], [[n, 1] for n in a.col_dims]), base='tt2qtt')
    add('tt2qtt(leading-dummy-factors)', 1, lambda s, i: O(s, i).order <= 4, lambda s, a: a.tt2qtt([[1, m] for m in a.row_dims], [[1, n] for n in a.col_dims]), base='tt2qtt')
    add('tt2qtt(threshold)', 1, true1, lambda s, a: a.tt2qtt([[m] for m in a.row_dims], [[n] for n in a.col_dims], threshold=1e-12), base='tt2qtt')
    add('diag', 1, lambda s, i: isvec(O(s, i)), lambda s, a: a.diag([0]))
    add('diag(all)', 1, lambda s, i: isvec(O(s, i)), lambda s, a: a.diag(list(range(a.order))), base='diag')
    add('squeeze', 1, lambda s, i: b1(O(s, i)) and any(m > 1 or n > 1 for m, n in zip(O(s, i).row_dims, O(s, i).col_dims)),
        lambda s, a: a.squeeze())
    add('norm(1)', 1, lambda s, i: b1(O(s, i)), lambda s, a: a.norm(p=1), base='norm')
    add('norm(2)', 1, lambda s, i: b1(O(s, i)), lambda s, a: a.norm(p=2), base='norm')
    add('full', 1, lambda s, i: b1(O(s, i)), lambda s, a: a.full())
    add('matricize', 1, lambda s, i: b1(O(s, i)), lambda s, a: a.matricize())
    add('element', 1, lambda s, i: b1(O(s, i)), lambda s, a: a.element([0] * (2 * a.order)))
    # ---- in-place operations (documented target = self)
    ip = dict(inplace=True, target=0)
    add('ortho_left!', 1, true1, lambda s, a: a.ortho_left(), base='ortho_left', **ip)
    add('ortho_right!', 1, true1, lambda s, a: a.ortho_right(), base='ortho_right', **ip)
    add('ortho!', 1, true1, lambda s, a: a.ortho(), base='ortho', **ip)
    add('ortho_left(1..)!', 1, lambda s, i: O(s, i).order >= 3, lambda s, a: a.ortho_left(start_index=1), base='ortho_left', **ip)
    add('ortho_right(d-2..)!', 1, lambda s, i: O(s, i).order >= 3, lambda s, a: a.ortho_right(start_index=a.order - 2),
        base='ortho_right', **ip)
    add('ortho(max_rank=1)!', 1, true1, lambda s, a: a.ortho(max_rank=1), base='ortho', mode='free', **ip)
    add('ortho(threshold)!', 1, true1, lambda s, a: a.ortho(threshold=1e-12), base='ortho', **ip)
    add('ortho_left(max_rank=list)!', 1, lambda s, i: 'caps' in s.env and O(s, i).order == 3, lambda s, a: a.ortho_left(max_rank=s.env['caps']),
        base='ortho_left', mode='free', **ip)
    add('ortho_right(max_rank=list)!', 1, lambda s, i: 'caps' in s.env and O(s, i).order == 3, lambda s, a: a.ortho_right(max_rank=s.env['caps']),
        base='ortho_right', mode='free', **ip)
    add('transpose(ow)!', 1, true1, lambda s, a: a.transpose(overwrite=True), base='transpose', mode='free', **ip)
    add('conj(ow)!', 1, true1, lambda s, a: a.conj(overwrite=True), base='conj', mode='free', **ip)
    add('rank_transpose(ow)!', 1, true1, lambda s, a: a.rank_transpose(overwrite=True), base='rank_transpose', mode='free', **ip)
    add('svd(ow)!', 1, lambda s, i: isvec(O(s, i)) and O(s, i).order >= 2, lambda s, a: a.svd(1, overwrite=True),
        base='svd', mode='free', consume=True, **ip)
    add('pinv(ow)!', 1, lambda s, i: isvec(O(s, i)) and O(s, i).order >= 2 and b1(O(s, i)) and admissible(O(s, i)),
        lambda s, a: a.pinv(1, threshold=1e-10, overwrite=True), base='pinv', mode='free', consume=True, **ip)
    for mode in MODES:
        add('tensordot(%s,1,ow)!' % mode, 2, (lambda m: lambda s, i, j: td_enabled(O(s, i), O(s, j), 1, m))(mode),
            (lambda m: lambda s, a, b: a.tensordot(b, 1, mode=m, overwrite=True))(mode), base='tensordot', mode='free', **ip)
    add('concatenate(ow)!', 2, lambda s, i, j: O(s, i).ranks[-1] == O(s, j).ranks[0],
        lambda s, a, b: a.concatenate(b, overwrite=True), base='concatenate', mode='free', **ip)
    add('rank_tensordot(ow)!', 1, true1, lambda s, a: a.rank_tensordot(np.eye(a.ranks[-1]) * 2.0, overwrite=True),
        base='rank_tensordot', mode='free', **ip)

    def scale(a, i):
        a.cores[i][...] *= 2
    add('cores[0]*=2!', 1, true1, lambda s, a: scale(a, 0), base='user-write', mode='free', **ip)
    add('cores[-1]*=2!', 1, true1, lambda s, a: scale(a, -1), base='user-write', mode='free', **ip)

    # ---- routines (macro transitions): operator must be an initial object carrying the right tag
    def tagged(s, i, tag):
        return tag in s.tags[i]

    def vec_for(s, i, j):
        return isvec(O(s, j)) and b1(O(s, j)) and list(O(s, j).row_dims) == list(O(s, i).row_dims) and admissible(O(s, j)) \
            and O(s, j).order == O(s, i).order
    en_ax = lambda tag: (lambda s, i, j: tagged(s, i, tag) and vec_for(s, i, j))
    en_axb = lambda tag: (lambda s, i, j, k: tagged(s, i, tag) and vec_for(s, i, j) and vec_for(s, i, k))
    en_axb2 = lambda tag: (lambda s, i, j, k: O(s, i).order >= 2 and tagged(s, i, tag) and vec_for(s, i, j) and vec_for(s, i, k))
    add('sle.als', 3, en_axb('hpd'), lambda s, A, x, b: sle.als(A, x, b))
    add('sle.als(lu,2)', 3, en_axb('hpd'), lambda s, A, x, b: sle.als(A, x, b, repeats=2, solver='lu'), base='sle.als')
    add('sle.mals', 3, en_axb2('hpd'), lambda s, A, x, b: sle.mals(A, x, b))
    add('sle.mals(lu)', 3, en_axb2('hpd'), lambda s, A, x, b: sle.mals(A, x, b, solver='lu'), base='sle.mals')
    add('ode.implicit_euler(lu)', 3, en_axb('hpd'), lambda s, A, x, g: ode.implicit_euler(A * (-1.0), x, g, st, micro_solver='lu', normalize=0, progress=False),
        base='ode.implicit_euler')
    add('ode.trapezoidal_rule(lu,mals)', 3, en_axb2('hpd'),
        lambda s, A, x, g: ode.trapezoidal_rule(A * (-1.0), x, g, st, tt_solver='mals', micro_solver='lu', normalize=2, progress=False), base='ode.trapezoidal_rule')
    add('sle.mals(max_rank)', 3, en_axb2('hpd'), lambda s, A, x, b: sle.mals(A, x, b, threshold=0, max_rank=1), base='sle.mals')
    add('evp.als', 2, en_ax('hpd'), lambda s, A, x: evp.als(A, x, solver='eigh'))
    add('evp.als(eig,2 sweeps)', 2, en_ax('hpd'), lambda s, A, x: evp.als(A, x, repeats=2, conv_eps=0), base='evp.als')
    add('evp.als(number_ev=2)', 2, en_ax('hpd'), lambda s, A, x: evp.als(A, x, number_ev=2, solver='eigh'), base='evp.als')
    add('evp.als(previous)', 3, en_axb('hpd'), lambda s, A, x, p: evp.als(A, x, previous=[p], shift=-1, solver='eigh'), base='evp.als')
    add('evp.als(gevp)', 2, en_ax('hpd'), lambda s, A, x: evp.als(A, x, operator_gevp=A, solver='eigh'), base='evp.als')
    add('evp.power_method', 2, en_ax('hpd'), lambda s, A, x: evp.power_method(A, x, repeats=2, sigma=0.3))
    st = [0.1, 0.05]
    add('ode.explicit_euler', 2, en_ax('hpd'), lambda s, A, x: ode.explicit_euler(A, x, st, normalize=0, progress=False),
        prefix=lambda s, A, x: ode.explicit_euler(A, x, st[:1], normalize=0, progress=False))
    add('ode.explicit_euler(norm2)', 2, en_ax('hpd'), lambda s, A, x: ode.explicit_euler(A, x, st, normalize=2, progress=False),
        base='ode.explicit_euler', prefix=lambda s, A, x: ode.explicit_euler(A, x, st[:1], normalize=2, progress=False))
    add('ode.implicit_euler', 3, en_axb('hpd'), lambda s, A, x, g: ode.implicit_euler(A * (-1.0), x, g, st, normalize=0, progress=False))
    add('ode.implicit_euler(self-guess)', 2, en_ax('hpd'), lambda s, A, x: ode.implicit_euler(A * (-1.0), x, x, st, normalize=0, progress=False),
        base='ode.implicit_euler')
    add('ode.implicit_euler(mals)', 3, en_axb2('hpd'), lambda s, A, x, g: ode.implicit_euler(A * (-1.0), x, g, st, tt_solver='mals', normalize=2, progress=False),
        base='ode.implicit_euler')
    add('ode.trapezoidal_rule', 3, en_axb('hpd'), lambda s, A, x, g: ode.trapezoidal_rule(A * (-1.0), x, g, st, normalize=0, progress=False))
    add('ode.trapezoidal_rule(self-guess)', 2, en_ax('hpd'), lambda s, A, x: ode.trapezoidal_rule(A * (-1.0), x, x, st, normalize=0, progress=False),
        base='ode.trapezoidal_rule')
    add('ode.hod', 2, en_ax('hpd'), lambda s, A, x: ode.hod(A, x, 0.05, 2, normalize=0, progress=False),
        prefix=lambda s, A, x: ode.hod(A, x, 0.05, 1, normalize=0, progress=False))
    add('ode.hod(order4,norm2)', 2, en_ax('hpd'), lambda s, A, x: ode.hod(A, x, 0.05, 2, order=4, normalize=2, progress=False), base='ode.hod',
        prefix=lambda s, A, x: ode.hod(A, x, 0.05, 1, order=4, normalize=2, progress=False))
    add('ode.hod(previous_value)', 3, en_axb('hpd'), lambda s, A, x, p: ode.hod(A, x, 0.05, 2, previous_value=p, normalize=0, progress=False),
        base='ode.hod')
    # a user-supplied differencing operator: any live operator of the right shape is a legal argument (results of earlier sums
    # have reducible ranks, which a compression inside the routine would change)
    same_op = lambda s, i, k: b1(O(s, k)) and list(O(s, k).row_dims) == list(O(s, i).row_dims) and list(O(s, k).col_dims) == list(O(s, i).col_dims)
    add('ode.hod(op_hod)', 3, lambda s, i, j, k: tagged(s, i, 'hpd') and vec_for(s, i, j) and same_op(s, i, k),
        lambda s, A, x, H: ode.hod(A, x, 0.05, 2, op_hod=H, threshold=1e-12, normalize=0, progress=False), base='ode.hod')
    add('ode.errors_expl_euler', 3, en_axb('hpd'), lambda s, A, x, y: ode.errors_expl_euler(A, [x, y], [0.1]))
    add('ode.errors_impl_euler', 3, en_axb('hpd'), lambda s, A, x, y: ode.errors_impl_euler(A, [x, y], [0.1]))
    add('ode.errors_trapezoidal', 3, en_axb('hpd'), lambda s, A, x, y: ode.errors_trapezoidal(A, [x, y], [0.1]))
    add('ode.tdvp1site', 2, en_ax('hpd'), lambda s, A, x: ode.tdvp1site(A, x, 0.05, 2), prefix=lambda s, A, x: ode.tdvp1site(A, x, 0.05, 1))
    add('ode.tdvp2site', 2, en_ax('hpd'), lambda s, A, x: ode.tdvp2site(A, x, 0.05, 2), prefix=lambda s, A, x: ode.tdvp2site(A, x, 0.05, 1))
    add('ode.tdvp', 2, en_ax('hpd'), lambda s, A, x: ode.tdvp(A, x, 0.05, 2), prefix=lambda s, A, x: ode.tdvp(A, x, 0.05, 1))
    # normalised trajectories (normalize=2): every entry is a state of its own, consistent with the shorter run (I9)
    add('ode.tdvp1site(norm2)', 2, en_ax('hpd'), lambda s, A, x: ode.tdvp1site(A, x, 0.05, 3, normalize=2), base='ode.tdvp1site',
        prefix=lambda s, A, x: ode.tdvp1site(A, x, 0.05, 2, normalize=2))
    add('ode.tdvp2site(norm2)', 2, en_ax('hpd'), lambda s, A, x: ode.tdvp2site(A, x, 0.05, 3, normalize=2), base='ode.tdvp2site',
        prefix=lambda s, A, x: ode.tdvp2site(A, x, 0.05, 2, normalize=2))
    add('ode.tdvp(norm2)', 2, en_ax('hpd'), lambda s, A, x: ode.tdvp(A, x, 0.05, 3, normalize=2), base='ode.tdvp',
        prefix=lambda s, A, x: ode.tdvp(A, x, 0.05, 2, normalize=2))
    add('ode.krylov', 2, en_ax('hpd'), lambda s, A, x: ode.krylov(A, x, 3, 0.05))
    add('ode.adaptive_step_size', 3, en_axb('gen'),
        lambda s, A, x, g: ode.adaptive_step_size(A, x, g, 0.3, step_size_first=0.1, progress=False))
    add('ode.adaptive_step_size(trapezoidal)', 2, en_ax('gen'),
        lambda s, A, x: ode.adaptive_step_size(A, x, x, 0.3, step_size_first=0.1, second_method='trapezoidal_rule', progress=False),
        base='ode.adaptive_step_size')
    # ---- data-driven routines and model builders: arguments are harness-held NumPy arrays (I4) and/or pool objects
    import scikit_tt.data_driven.transform as tdt
    import scikit_tt.data_driven.regression as reg
    import scikit_tt.data_driven.tdmd as tdmd
    import scikit_tt.data_driven.tedmd as tedmd
    import scikit_tt.data_driven.tgedmd as tgedmd
    import scikit_tt.data_driven.ulam as ulam
    import scikit_tt.slim as slim

    def has(*keys):
        return lambda s, *a: all(k in s.env for k in keys)

    def basis(s):
        return [[tdt.ConstantFunction(0), tdt.Identity(0), tdt.Monomial(0, 2)], [tdt.Sin(1 % s.env['x'].shape[0], 1.0), tdt.Cos(1 % s.env['x'].shape[0], 0.5)]]
    phi = [lambda t: 1.0, lambda t: t, lambda t: t ** 2]
    dd = dict(may_raise=True)
    add('tdt.basis_decomposition', 0, has('x'), lambda s: tdt.basis_decomposition(s.env['x'], basis(s)), **dd)
    add('tdt.coordinate_major', 0, has('x'), lambda s: tdt.coordinate_major(s.env['x'], phi), **dd)
    add('tdt.function_major', 0, has('x'), lambda s: tdt.function_major(s.env['x'], phi[1:]), **dd)
    add('tdt.hocur', 0, has('x'), lambda s: tdt.hocur(s.env['x'], basis(s), ranks=s.env['x'].shape[1], progress=False), **dd)
    add('reg.mandy_cm', 0, has('x', 'y'), lambda s: reg.mandy_cm(s.env['x'], s.env['y'], phi, threshold=1e-10), **dd)
    add('reg.mandy_fm', 0, has('x', 'y'), lambda s: reg.mandy_fm(s.env['x'], s.env['y'], phi[1:], threshold=1e-10), **dd)
    add('reg.mandy_kb', 0, has('x', 'y'), lambda s: reg.mandy_kb(s.env['x'], s.env['y'], basis(s)), **dd)
    add('reg.arr', 1, lambda s, i: 'x' in s.env and 'arr-guess' in s.tags[i],
        lambda s, g: reg.arr(s.env['x'], s.env['y'], basis(s), g, repeats=2, rcond=1e-10, progress=False), **dd)
    # a single output row (a list of length one on the inside): the guess is an input here as well
    add('reg.arr(one row)', 1, lambda s, i: 'x' in s.env and 'arr-guess' in s.tags[i],
        lambda s, g: reg.arr(s.env['x'], s.env['y'][:1], basis(s), g, repeats=2, rcond=1e-10, progress=False), base='reg.arr', **dd)
    add('tedmd.amuset_hosvd', 0, has('x', 'xi'), lambda s: tedmd.amuset_hosvd(s.env['x'], s.env['xi'], s.env['yi'], basis(s), threshold=1e-10), **dd)
    add('tedmd.amuset_hosvd(list,st_tf)', 0, has('x', 'xi'),
        lambda s: tedmd.amuset_hosvd(s.env['x'], [s.env['xi'], s.env['xi2']], [s.env['yi'], s.env['yi2']], basis(s), threshold=1e-10, st_tf=True),
        base='tedmd.amuset_hosvd', **dd)
    add('tedmd.amuset_hocur(list)', 0, has('x', 'xi'),
        lambda s: tedmd.amuset_hocur(s.env['x'], [s.env['xi'], s.env['xi2']], [s.env['yi'], s.env['yi2']], basis(s), multiplier=3),
        base='tedmd.amuset_hocur', **dd)
    add('tgedmd.amuset_hosvd', 0, has('x', 'sigma'),
        lambda s: tgedmd.amuset_hosvd(s.env['x'], basis(s), s.env['sigma'], b=s.env['y'], threshold=1e-10, return_option='eigenvectors'), **dd)
    add('ulam.ulam_2d', 0, has('transitions'), lambda s: ulam.ulam_2d(s.env['transitions'], [2, 3], 2), **dd)
    add('slim.slim_mme', 0, has('transitions'), lambda s: slim.slim_mme([2, 2, 2], [[[0, 1, 1.0]], [], [[1, 0, 2.0]]], [[[0, 1, 1, 0, 0.5]], [], [[1, 0, 0, 1, 3.0]]], threshold=1e-12), **dd)
    add('tdmd.tdmd_exact', 2, lambda s, i, j: 'snap-x' in s.tags[i] and 'snap-y' in s.tags[j], lambda s, x, y: tdmd.tdmd_exact(x, y, threshold=1e-10), **dd)
    add('tdmd.tdmd_standard', 2, lambda s, i, j: 'snap-x' in s.tags[i] and 'snap-y' in s.tags[j], lambda s, x, y: tdmd.tdmd_standard(x, y, threshold=1e-10), **dd)
    for nm, f in (('lie', ode.lie_splitting), ('strang', ode.strang_splitting), ('yoshida', ode.yoshida_splitting), ('kahan_li', ode.kahan_li_splitting)):
        add('ode.%s_splitting' % nm, 1, lambda s, i: 'S' in s.env and 'chain-state' in s.tags[i],
            (lambda ff: lambda s, x: ff(s.env['S'], s.env['L'], s.env['I'], s.env['M'], x, 0.1, 2, threshold=0, max_rank=50, normalize=0))(f),
            prefix=(lambda ff: lambda s, x: ff(s.env['S'], s.env['L'], s.env['I'], s.env['M'], x, 0.1, 1, threshold=0, max_rank=50, normalize=0))(f), **dd)
        add('ode.%s_splitting(norm2)' % nm, 1, lambda s, i: 'S' in s.env and 'chain-state' in s.tags[i],
            (lambda ff: lambda s, x: ff(s.env['S'], s.env['L'], s.env['I'], s.env['M'], x, 0.1, 3, threshold=0, max_rank=50, normalize=2))(f),
            prefix=(lambda ff: lambda s, x: ff(s.env['S'], s.env['L'], s.env['I'], s.env['M'], x, 0.1, 2, threshold=0, max_rank=50, normalize=2))(f),
            base='ode.%s_splitting' % nm, **dd)
        add('ode.%s_splitting(list)' % nm, 1, lambda s, i: 'S' in s.env and 'chain-state' in s.tags[i],
            (lambda ff: lambda s, x: ff([s.env['S']] * 3, [s.env['L']] * 3, [s.env['I']] * 3, [s.env['M']] * 3, x, 0.1, 1, threshold=0, max_rank=50, normalize=2))(f),
            base='ode.%s_splitting' % nm, **dd)

    def qsample(s, x):
        from vt.props.c20 import _qc
        return _qc().sampling(x, [0, 2], 4)
    add('quantum.sampling', 1, lambda s, i: 'qstate' in s.tags[i], qsample, **dd)
    return ops


# ---------------------------------------------------------------------------------------------------------- pools
def _tt(rng, rows, cols, ranks, cplx=False, fam='gauss'):
    from scikit_tt.tensor_train import TT
    return TT(rand_cores(rng, rows, cols, ranks, cplx, fam))


def pool_builder(spec):
    def build(seed):
        from scikit_tt.tensor_train import TT
        rng = rng_for({'pool': spec['name']}, seed)
        objs, tags = [], []
        for o in spec['objs']:
            if o.get('kind') == 'hpd':
                n = int(np.prod(o['rows']))
                B = rng.standard_normal((n, n)) + (1j * rng.standard_normal((n, n)) if o.get('c') else 0)
                A = B.conj().T @ B / n + np.eye(n)
                objs.append(TT(A.reshape(o['rows'] + o['rows'])))
                tags.append({'hpd'})
            elif o.get('kind') == 'gen':
                n = int(np.prod(o['rows']))
                G = rng.random((n, n)) + 0.1
                np.fill_diagonal(G, 0)
                G = G - np.diag(G.sum(axis=0))
                objs.append(TT(G.reshape(o['rows'] + o['rows'])))
                tags.append({'gen'})
            elif o.get('kind') == 'snapshots':
                X = rng.standard_normal((4, 5))
                objs.append(TT(X[:, :-1].reshape([2, 2, 4, 1, 1, 1]))); tags.append({'snap-x'})
                objs.append(TT(X[:, 1:].reshape([2, 2, 4, 1, 1, 1]))); tags.append({'snap-y'})
            elif o.get('kind') == 'samecore':
                c_ = rng.standard_normal((1, o['rows'][0], o.get('cols', [1])[0], 1))
                objs.append(TT([c_] * len(o['rows']))); tags.append(set())      # one array object is every core
            elif o.get('kind') == 'qstate':
                t = _tt(rng, [2, 2, 2], [1, 1, 1], [1, 2, 2, 1], True)
                t.ortho_right(); t = (1.0 / t.norm()) * t
                objs.append(t); tags.append({'qstate'})
            else:
                objs.append(_tt(rng, o['rows'], o.get('cols', [1] * len(o['rows'])), o['ranks'], o.get('c', False),
                                o.get('fam', 'gauss')))
                tags.append(set(o.get('tags', [])))
        env = {}
        if spec.get('env') == 'data':
            env = {'x': rng.uniform(-1, 1, (2, 6)), 'y': rng.standard_normal((2, 6)), 'xi': np.arange(0, 4), 'yi': np.arange(1, 5),
                   'xi2': np.arange(1, 5), 'yi2': np.arange(2, 6), 'sigma': rng.standard_normal((2, 3, 6)),
                   'transitions': np.array([[1, 1, 2, 2, 1], [1, 3, 2, 1, 1], [2, 1, 2, 2, 1], [2, 3, 1, 1, 3]])}
        elif spec.get('env') == 'caps':
            env = {'caps': [1, 2, 2, 1]}
        elif spec.get('env') == 'chain':
            a = rng.standard_normal((2, 2)); env = {'S': a - a.T, 'L': rng.standard_normal((2, 2, 2)), 'I': np.eye(2), 'M': rng.standard_normal((2, 2, 2))}
        return System(objs, tags, env)
    return build


POOLS_SPEC = [
    {'name': 'rank1-vectors', 'objs': [{'rows': [2, 2, 2], 'ranks': [1, 1, 1, 1]}, {'rows': [2, 2, 2], 'ranks': [1, 1, 1, 1]}]},
    {'name': 'rank-caps', 'env': 'caps', 'objs': [{'rows': [2, 2, 2], 'ranks': [1, 2, 2, 1]}, {'rows': [2, 2, 2], 'ranks': [1, 1, 1, 1]}]},
    {'name': 'same-core-object', 'objs': [{'kind': 'samecore', 'rows': [2, 2, 2]}, {'kind': 'samecore', 'rows': [2, 2], 'cols': [2, 2]},
                                          {'rows': [2, 2, 2], 'ranks': [1, 1, 1, 1]}]},
    {'name': 'mixed-ranks', 'objs': [{'rows': [2, 2, 2], 'ranks': [1, 1, 2, 1]}, {'rows': [2, 2, 2], 'ranks': [1, 2, 1, 1]}]},
    {'name': 'size1-modes', 'objs': [{'rows': [1, 2, 2], 'ranks': [1, 2, 1, 1]}, {'rows': [2, 2, 1], 'ranks': [1, 1, 2, 1]},
                                     {'rows': [2, 1, 2], 'ranks': [1, 1, 1, 1]}]},
    {'name': 'rank2-vectors', 'objs': [{'rows': [2, 2, 2], 'ranks': [1, 2, 2, 1]}, {'rows': [2, 2, 2], 'ranks': [1, 2, 2, 1]}]},
    {'name': 'operator-vector', 'objs': [{'rows': [2, 2], 'cols': [2, 2], 'ranks': [1, 1, 1]}, {'rows': [2, 2], 'ranks': [1, 1, 1]},
                                         {'rows': [2, 2], 'cols': [2, 2], 'ranks': [1, 2, 1]}]},
    {'name': 'complex', 'objs': [{'rows': [2, 2], 'ranks': [1, 1, 1], 'c': True}, {'rows': [2, 2], 'cols': [2, 2], 'ranks': [1, 1, 1], 'c': True},
                                 {'rows': [2, 2], 'ranks': [1, 2, 1]}]},
    {'name': 'qtt', 'objs': [{'rows': [4, 2], 'ranks': [1, 1, 1]}, {'rows': [4, 2], 'cols': [4, 2], 'ranks': [1, 2, 1]}]},
    {'name': 'solver', 'objs': [{'kind': 'hpd', 'rows': [2, 2]}, {'rows': [2, 2], 'ranks': [1, 2, 1]}, {'rows': [2, 2], 'ranks': [1, 1, 1]}]},
    {'name': 'solver1', 'objs': [{'kind': 'hpd', 'rows': [3]}, {'rows': [3], 'ranks': [1, 1]}, {'rows': [3], 'ranks': [1, 1]}]},
    {'name': 'solver3', 'objs': [{'kind': 'hpd', 'rows': [2, 2, 2]}, {'rows': [2, 2, 2], 'ranks': [1, 2, 2, 1]},
                                 {'rows': [2, 2, 2], 'ranks': [1, 1, 1, 1]}]},
    {'name': 'solver-complex', 'objs': [{'kind': 'hpd', 'rows': [2, 2], 'c': True}, {'rows': [2, 2], 'ranks': [1, 2, 1], 'c': True},
                                        {'rows': [2, 2], 'ranks': [1, 1, 1]}]},
    {'name': 'data-driven', 'env': 'data', 'objs': [{'rows': [3, 2], 'ranks': [1, 2, 1], 'tags': ['arr-guess']}, {'rows': [3, 2], 'ranks': [1, 1, 1], 'tags': ['arr-guess']}]},
    {'name': 'snapshots', 'objs': [{'kind': 'snapshots'}]},
    {'name': 'chain', 'env': 'chain', 'objs': [{'rows': [2, 2, 2], 'ranks': [1, 1, 1, 1], 'tags': ['chain-state']}, {'rows': [2, 2, 2], 'ranks': [1, 2, 2, 1], 'tags': ['chain-state']}]},
    {'name': 'quantum', 'objs': [{'kind': 'qstate'}, {'rows': [2, 2, 2], 'ranks': [1, 1, 1, 1], 'c': True}]},
    {'name': 'markov', 'objs': [{'kind': 'gen', 'rows': [2, 2]}, {'rows': [2, 2], 'ranks': [1, 2, 1], 'fam': 'nonneg'},
                                {'rows': [2, 2], 'ranks': [1, 1, 1], 'fam': 'nonneg'}]},
]


class Model(ex.Model):
    cap = 5
    max_join = 2


_model = None


def model():
    global _model
    if _model is None:
        m = Model()
        m.ops = build_ops()
        m.pools = {p['name']: pool_builder(p) for p in POOLS_SPEC}
        _model = m
    return _model


def settings(tier):
    # quick: every history of length <= 2, and every history of length 3 that ends with an in-place operation
    # thorough: every history of length <= 3 whose last call touches the part of the state that the second call created or
    # modified (a last call on untouched operands was executed identically from the parent state at depth 2)
    return {'depth': 3, 'bound_inplace': 2, 'last_inplace_only': True if tier == 'quick' else 'fresh'}


def explore(tier, seed, jobs):
    m = model()
    st = settings(tier)
    with quiet():
        stats, fails = ex.explore(m, tier, seed, jobs, st['depth'], st['bound_inplace'], last_inplace_only=st['last_inplace_only'])
    cov = {
        'states': stats['states'], 'transitions': stats['transitions'],
        'traces_validated_against_impl': stats['replays'],
        'samples': stats['samples'] or [{'note': 'no successor states'}],
        'exhaustive': True, 'depth_bound': st['depth'], 'last_level_inplace_only': st['last_inplace_only'] is True, 'reduction_all_levels': 'operand tuples must touch an object created or modified by the previous call (or one sharing a buffer with it); other tuples were executed identically from the parent state', 'last_level_reduction': 'additionally: only in-place operations on targets whose buffers are shared' if st['last_inplace_only'] is True else 'none beyond the all-level reduction', 'operand_tuples': 'with repetition (the same object in two argument positions)', 'routine_calls_that_raised_and_were_disabled': stats['raised'], 'inplace_deviation_bound': st['bound_inplace'],
        'alphabet_size': len(m.ops), 'alphabet': [o.name for o in m.ops], 'pools': list(m.pools),
        'per_pool': stats['per_pool'], 'per_depth': stats['per_depth'],
        'distinct_sharing_partitions': stats['distinct_sharing_partitions'],
        'explanation': 'the explored system is the implementation itself: every transition is executed on live TT objects after '
                       'replaying its history from scratch (count = traces_validated_against_impl); no separate model exists '
                       'whose traces would need conformance checking. states = distinct canonical states (metadata, layout '
                       'flags, buffer-sharing partition) summed over initial pools.',
    }
    return {'coverage': cov, 'fails': fails}


def run_case(case, seed):
    """replay of a recorded history, invariants evaluated after every step (the plain-unit-test form)"""
    m = model()
    r = R(case)
    with quiet():
        sys_ = m.pools[case['pool']](seed)
        for tr in case['history']:
            tr = (tr[0], tuple(tr[1]))
            fails, _ = ex.apply_transition(m, sys_, tr)
            r.checks += len(sys_.objs)
            if fails:
                for k, msg in fails:
                    r.fail(k, msg + ' | history: %s' % case.get('ops'))
                break
    r.nontrivial = True
    return r
