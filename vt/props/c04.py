"""C04 — rank truncation is bounded in rank and in error (TT-SVD quasi-optimality, relative-threshold bound)."""
import itertools
import numpy as np
from vt.core import R, rng_for, dn, tt_from, meta_problem, unfolding_svals

ID = 'C04'
LEVEL = 'exploration'
RULE = ('complete enumeration of tensor layout (order, per-site (row,col) sizes) x spectrum family (geometric decay, '
        'flat/gaussian, dominant+tail, exact low rank + 1e-14 noise) x dtype x truncation setting (max_rank int 1..4, '
        'every per-bond list over {1,2,3,inf}, thresholds {0,1e-12,1e-6,1e-2,0.3,0.9}, combinations) x entry point '
        '(TT(array), TT(cores,max_rank), ortho, ortho_right on left-orthonormal input, ortho_left on right-orthonormal '
        'input, one-sided sweeps on non-orthonormal input [rank cap only]). Non-trivial: the setting discards at least '
        'one singular direction (returned rank below the untruncated rank).')
ASSUMPTIONS = ['singular values of the dense unfoldings via numpy.linalg.svd are the reference',
               'zero tensors excluded (D8)', 'error bound for one-sided sweeps only when the opposite side is orthonormal']
CHUNK = 16
THR = [0, 1e-12, 1e-6, 1e-2, 0.3, 0.9]
INF = float('inf')


def space(tier):
    return {'layouts': [l for l in layouts(tier)], 'families': ['decay', 'gauss', 'dominant', 'lowrank'],
            'max_rank': [1, 2, 3, 4, 'inf', 'all per-bond lists over {1,2,3,inf}'], 'threshold': THR}


def layouts(tier):
    q = tier == 'quick'
    out = []
    for d in ([2, 3] if q else [2, 3, 4, 5]):
        if d < 4:
            for sites in itertools.product([(2, 1), (3, 1), (2, 2)] if q else [(2, 1), (3, 1), (4, 1), (2, 2), (3, 2), (1, 3), (3, 3)], repeat=d):
                out.append([list(s) for s in sites])
        elif d == 4:
            for sites in itertools.product([(2, 1), (3, 1), (2, 2)], repeat=d):
                if sum(1 for s in sites if s == (2, 2)) <= 1:
                    out.append([list(s) for s in sites])
        else:
            for sites in itertools.product([(2, 1), (3, 1)], repeat=d):
                if sum(1 for s in sites if s == (3, 1)) <= 2:
                    out.append([list(s) for s in sites])
    return out


def cases(tier):
    for sites in layouts(tier):
        d = len(sites)
        for fam in ('decay', 'gauss', 'dominant', 'lowrank'):
            for c in (False, True):
                # TT(array, threshold, max_rank)
                for thr in THR:
                    for mr in (INF, 1, 2, 3, 4):
                        yield {'ep': 'array', 'sites': sites, 'fam': fam, 'c': c, 'thr': thr, 'mr': mr}
                # ortho-family with int caps and per-bond lists
                caps = [1, 2, 3, 4] + [[1] + list(x) + [1] for x in itertools.product([1, 2, 3, INF], repeat=d - 1)]
                for ep in ('cores', 'ortho', 'right_on_left', 'left_on_right', 'right_raw', 'left_raw'):
                    for mr in caps:
                        if ep == 'cores' and isinstance(mr, list):
                            continue
                        yield {'ep': ep, 'sites': sites, 'fam': fam, 'c': c, 'thr': 0, 'mr': mr}


def make_tensor(case, rng):
    sites, fam, c = case['sites'], case['fam'], case['c']
    rows = [s[0] for s in sites]; cols = [s[1] for s in sites]
    shape = rows + cols

    def g(shp):
        a = rng.standard_normal(shp)
        return a + 1j * rng.standard_normal(shp) if c else a

    def rank1():
        t = np.array(1.0)
        d = len(sites)
        fs = [g((rows[i], cols[i])) for i in range(d)]
        fs = [f / np.linalg.norm(f) for f in fs]
        t = fs[0]
        for f in fs[1:]:
            t = np.multiply.outer(t, f)
        # axes (m1,n1,m2,n2,..) -> (m.., n..)
        return np.transpose(t, [2 * i for i in range(d)] + [2 * i + 1 for i in range(d)])
    if fam == 'gauss':
        return g(shape)
    if fam == 'decay':
        return 0.05 * sum(10.0 ** (-j) * rank1() for j in range(8))   # small norm: an absolute cut would over-truncate
    if fam == 'dominant':
        return 5.0 * rank1() + 1e-3 * g(shape)
    if fam == 'lowrank':
        return rank1() + 0.5 * rank1() + 1e-14 * g(shape)
    raise ValueError(fam)


def run_case(case, seed):
    from scikit_tt.tensor_train import TT
    r = R(case)
    rng = rng_for({k: case[k] for k in ('sites', 'fam', 'c')}, seed)   # same tensor for all settings of a layout
    x = make_tensor(case, rng)
    sites = case['sites']; d = len(sites)
    ep, thr, mr = case['ep'], case['thr'], case['mr']
    nx = np.linalg.norm(x.ravel())
    sv = [None] + [unfolding_svals(x, d, k) for k in range(1, d)]
    caps = mr if isinstance(mr, list) else [1] + [mr] * (d - 1) + [1]
    key = 'trunc:' + ep
    tail = lambda k, rk: float(np.sum(sv[k][int(rk):] ** 2)) if rk != INF else 0.0
    bounded = True
    with r.op(key + ':call'):
        if ep == 'array':
            kw = {}
            if thr != 0:
                kw['threshold'] = thr
            if mr != INF:
                kw['max_rank'] = mr
            T = TT(np.array(x), **kw)
        else:
            full = TT(np.array(x))
            cores = [cc.copy() for cc in full.cores]
            # scramble the gauge so the input is a generic (non-orthonormal) representation of x
            for i in range(d - 1):
                k = cores[i].shape[3]
                G = rng.standard_normal((k, k)) + 3 * np.eye(k)
                cores[i] = np.tensordot(cores[i], G, axes=(3, 0))
                cores[i + 1] = np.tensordot(np.linalg.inv(G), cores[i + 1], axes=(1, 0))
            if ep == 'cores':
                T = TT(cores, max_rank=mr)
            else:
                T = tt_from(cores)
                if ep == 'ortho':
                    T.ortho(max_rank=mr)
                elif ep == 'right_on_left':
                    T.ortho_left(); T.ortho_right(max_rank=mr)
                elif ep == 'left_on_right':
                    T.ortho_right(); T.ortho_left(max_rank=mr)
                elif ep == 'right_raw':
                    T.ortho_right(max_rank=mr); bounded = False
                elif ep == 'left_raw':
                    T.ortho_left(max_rank=mr); bounded = False
        mp = meta_problem(T)
        if not r.true(key + ':meta', mp is None, mp):
            return r
        r.true(key + ':dims', [list(s) for s in zip(T.row_dims, T.col_dims)] == [list(s) for s in sites])
        rk = list(T.ranks)
        # (i) rank cap
        r.true(key + ':rank-cap', all(rk[k] <= caps[k] for k in range(1, d)), 'ranks %s cap %s' % (rk, caps))
        full_rank = [1] + [int(np.sum(sv[k] > 1e-11 * sv[k][0])) for k in range(1, d)] + [1]
        r.nontrivial = any(rk[k] < full_rank[k] for k in range(1, d))
        r.outcome = 'truncated' if r.nontrivial else 'exact'
        if bounded:
            err = np.linalg.norm((dn(T) - x).ravel())
            slack = 1e-10 * max(1.0, nx)
            if thr == 0:
                # (ii) quasi-optimality with the requested caps
                bound = np.sqrt(sum(tail(k, caps[k]) for k in range(1, d)))
                r.le(key + ':quasi-optimal', err, bound * (1 + 1e-8), slack, 'caps %s ranks %s' % (caps, rk))
                if all(cp == INF for cp in caps[1:-1]):
                    r.le(key + ':exact', err, 0.0, slack)     # (iv)
            else:
                # universal bound with the returned ranks, and rank cap
                bound = np.sqrt(sum(tail(k, rk[k]) for k in range(1, d)))
                r.le(key + ':svd-bound', err, bound * (1 + 1e-8), slack, 'ranks %s' % rk)
                if mr == INF:
                    # (iii) relative threshold bound: discarded directions counted by the oracle
                    disc = 0
                    for k in range(1, d):
                        m = rk[k - 1] * sites[k - 1][0] * sites[k - 1][1]
                        n = int(np.prod([s[0] * s[1] for s in sites[k:]]))
                        disc += min(m, n) - rk[k]
                    r.le(key + ':threshold-bound', err, thr * nx * np.sqrt(max(disc, 0)) * (1 + 1e-8), slack,
                         'thr %g discarded %d' % (thr, disc))
        else:
            r.count('rank_cap_only')
    return r
