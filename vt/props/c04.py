"""C04 — rank truncation is bounded in rank and in error (TT-SVD quasi-optimality, relative-threshold bound)."""
import itertools
import numpy as np
from vt.core import R, rng_for, dn, tt_from, meta_problem, unfolding_svals

ID = 'C04'
LEVEL = 'exploration'
RULE = ('complete enumeration of tensor layout (order, per-site (row,col) sizes) x spectrum family (geometric decay, '
        'flat/gaussian, dominant+tail, exact low rank + 1e-14 noise, exactly tied singular values [weighted unit tensors]) x dtype x max_rank type (int, numpy.int64, numpy.int32) x truncation setting (max_rank int 1..4, '
        'every per-bond list over {1,2,3,inf}, thresholds {0,1e-12,1e-6,1e-2,0.3,0.9}, combinations) x entry point '
        '(TT(array), TT(cores,max_rank), ortho, ortho_right on left-orthonormal input, ortho_left on right-orthonormal '
        'input, one-sided sweeps on non-orthonormal input [rank cap only]). Non-trivial: the setting discards at least '
        'one singular direction (returned rank below the untruncated rank).')
ASSUMPTIONS = ['singular values of the dense unfoldings via numpy.linalg.svd are the reference',
               'zero tensors excluded (D8)', 'error bound for one-sided sweeps only when the opposite side is orthonormal']
CHUNK = 16
THR = [0, 1e-12, 1e-6, 1e-2, 0.3, 0.9]
INF = float('inf')


def space(tier):
    return {'layouts': [l for l in layouts(tier)], 'families': ['decay', 'gauss', 'dominant', 'lowrank', 'ties', 'deep (1e-2 per step down to 1e-14)'], 'max_rank types': ['int', 'numpy.int64', 'numpy.int32'],
            'max_rank': [1, 2, 3, 4, 'inf', 'all per-bond lists over {1,2,3,inf}'], 'threshold': THR}


def layouts(tier):
    q = tier == 'quick'
    out = []
    for d in ([2, 3] if q else [2, 3, 4, 5]):
        if d < 4:
            for sites in itertools.product([(2, 1), (3, 1), (2, 2)] if q else [(2, 1), (3, 1), (4, 1), (2, 2), (3, 2), (1, 3), (3, 3)], repeat=d):
                out.append([list(s) for s in sites])
        elif d == 4:
            for sites in itertools.product([(2, 1), (3, 1), (2, 2)], repeat=d):
                if sum(1 for s in sites if s == (2, 2)) <= 1:
                    out.append([list(s) for s in sites])
        else:
            for sites in itertools.product([(2, 1), (3, 1)], repeat=d):
                if sum(1 for s in sites if s == (3, 1)) <= 2:
                    out.append([list(s) for s in sites])
    # layouts with an interior (or trailing) dummy mode of size 1 x 1
    out += [[[2, 1], [1, 1], [3, 1]], [[3, 1], [1, 1], [2, 2]], [[2, 2], [1, 1], [3, 1], [2, 1]], [[3, 1], [2, 1], [1, 1], [3, 1]], [[2, 1], [3, 1], [1, 1]]]
    return out


def cases(tier):
    # the shared helper utils.truncated_svd: shapes x spectrum x scale x (relative | absolute) threshold x max_rank
    for m_, n_ in ((4, 6), (6, 4), (5, 5), (1, 3), (3, 1)):
        for spec in ('decay', 'flat', 'gap'):
            for scale in (1.0, 1e-13, 1e10):
                for c in (False, True):
                    for rel in (True, False):
                        for thr in (0, 1e-12, 1e-3, 0.05, 0.5):
                            for mr in (INF, 1, 2, 3):
                                yield {'ep': 'tsvd', 'm': m_, 'n': n_, 'spec': spec, 'scale': scale, 'c': c, 'rel': rel, 'thr': thr, 'mr': mr}
                                if mr == 2 and scale == 1.0:
                                    for mrt in ('np64', 'np32'):
                                        yield {'ep': 'tsvd', 'm': m_, 'n': n_, 'spec': spec, 'scale': scale, 'c': c, 'rel': rel, 'thr': thr, 'mr': mr, 'mrt': mrt}
    # trains whose interior cores are ONE array object (homogeneous chains as the model constructors build them)
    for n_ in (2, 3):
        for d_ in (3, 4):
            for rk_ in (2, 3):
                for c in (False, True):
                    for ep in ('ortho', 'right_on_left', 'left_on_right'):
                        for mr in [1, 2, 3, 4] + [[1] + list(x_) + [1] for x_ in itertools.product([1, 2, INF], repeat=d_ - 1)]:
                            yield {'ep': ep + '_shared', 'n': n_, 'd': d_, 'rk': rk_, 'c': c, 'thr': 0, 'mr': mr}
    # one-sided sweeps with a relative threshold on a two-core train whose bond spectrum is prescribed (the other core is an isometry):
    # exactly the singular values with s_k / s_0 > threshold survive -- relative to the LARGEST one, however many comparable ones there are
    for spec in ((1.0, 1.0, 1.0, 0.5), (1.0, 0.9, 0.8, 0.3, 0.3), (2.0, 2.0, 1.0, 1.0), (1.0, 0.5, 1e-3, 1e-3)):
        for thr in (0.4, 0.25, 0.6, 1e-2, 1e-4):
            for c in (False, True):
                for side in ('left', 'right'):
                    for scale in (1.0, 1e-9, 1e6):
                        yield {'ep': 'bondthr', 'spec': list(spec), 'thr': thr, 'c': c, 'side': side, 'scale': scale, 'mr': INF}
    deep_only = [[[3, 2], [4, 2]], [[2, 2], [3, 2], [2, 1]], [[4, 2], [3, 2]]]      # unfoldings of rank 6 (wide and tall): cuts down to 1e-10
    for sites in layouts(tier) + deep_only:
        d = len(sites)
        for fam in (('decay', 'gauss', 'dominant', 'lowrank', 'ties', 'deep') if sites not in deep_only else ('deep',)):
            for c in (False, True):
                # TT(array, threshold, max_rank)
                for thr in THR:
                    for mr in ((INF, 1, 2, 3, 4) if sites not in deep_only else (INF, 3, 4, 5)):
                        yield {'ep': 'array', 'sites': sites, 'fam': fam, 'c': c, 'thr': thr, 'mr': mr}
                        if fam == 'gauss' and thr in (0, 1e-6) and mr in (INF, 2):
                            # the same array handed over in Fortran memory order
                            yield {'ep': 'array', 'sites': sites, 'fam': fam, 'c': c, 'thr': thr, 'mr': mr, 'lay': 'F'}
                        if fam == 'gauss' and thr in (0, 1e-6) and mr in (INF, 2):
                            # the same tensor in tiny units (x 1e-10): every entry, real and imaginary part, is small in absolute terms
                            yield {'ep': 'array', 'sites': sites, 'fam': fam, 'c': c, 'thr': thr, 'mr': mr, 'unit': 1e-10}
                        if mr in (1, 2) and thr in (0, 1e-6):
                            for mrt in ('np64', 'np32'):       # the documented integer types of max_rank
                                yield {'ep': 'array', 'sites': sites, 'fam': fam, 'c': c, 'thr': thr, 'mr': mr, 'mrt': mrt}
                # ortho-family with int caps and per-bond lists
                caps = ([1, 2, 3, 4] if sites not in deep_only else [3, 4, 5]) + [[1] + list(x) + [1] for x in itertools.product([1, 2, 3, INF], repeat=d - 1)]
                for ep in ('cores', 'ortho', 'ortho_hist', 'ortho_wgt', 'right_on_left', 'left_on_right', 'right_raw', 'left_raw'):
                    for mr in caps:
                        if ep == 'cores' and isinstance(mr, list) and fam not in ('gauss', 'ties'):
                            continue      # TT(cores, max_rank=list) hands the list on to ortho(): covered for two families
                        yield {'ep': ep, 'sites': sites, 'fam': fam, 'c': c, 'thr': 0, 'mr': mr}
                        if (isinstance(mr, list) and fam in ('gauss', 'ties')) or mr in (1, 2):
                            for mrt in (('np64',) if isinstance(mr, list) else ('np64', 'np32')):
                                yield {'ep': ep, 'sites': sites, 'fam': fam, 'c': c, 'thr': 0, 'mr': mr, 'mrt': mrt}
                # one-sided sweeps over an over-parameterised train (a sum of two trains: bond ranks above what the sizes to the
                # left / right admit) with a cap that is not binding for any bond of the train: nothing may be cut
                if fam in ('gauss', 'ties', 'lowrank') and sites not in deep_only:
                    for ep in ('right_raw_over', 'left_raw_over'):
                        for mr in ('maxrank', 'maxrank+1', 'maxrank-list'):
                            yield {'ep': ep, 'sites': sites, 'fam': fam, 'c': c, 'thr': 0, 'mr': mr}


def make_tensor(case, rng):
    sites, fam, c = case['sites'], case['fam'], case['c']
    rows = [s[0] for s in sites]; cols = [s[1] for s in sites]
    shape = rows + cols

    def g(shp):
        a = rng.standard_normal(shp)
        return a + 1j * rng.standard_normal(shp) if c else a

    def rank1():
        t = np.array(1.0)
        d = len(sites)
        fs = [g((rows[i], cols[i])) for i in range(d)]
        fs = [f / np.linalg.norm(f) for f in fs]
        t = fs[0]
        for f in fs[1:]:
            t = np.multiply.outer(t, f)
        # axes (m1,n1,m2,n2,..) -> (m.., n..)
        return np.transpose(t, [2 * i for i in range(d)] + [2 * i + 1 for i in range(d)])
    if fam == 'gauss':
        return g(shape)
    if fam == 'decay':
        return 0.05 * sum(10.0 ** (-j) * rank1() for j in range(8))   # small norm: an absolute cut would over-truncate
    if fam == 'dominant':
        return 5.0 * rank1() + 1e-3 * g(shape)
    if fam == 'lowrank':
        return rank1() + 0.5 * rank1() + 1e-14 * g(shape)
    if fam == 'deep':
        # singular values 1, 1e-2, ..., 1e-14: truncation inside the part of the spectrum far below sqrt(eps)
        return sum(10.0 ** (-2 * j) * rank1() for j in range(8))
    if fam == 'ties':
        # exactly tied singular values in every unfolding: sum of J unit tensors e_j x ... x e_j with weights (2,2[,1,1]) -> the
        # unfoldings are weighted partial permutation matrices (GHZ-like states, identity-like operators)
        d = len(sites)
        p = [rows[i] * cols[i] for i in range(d)]
        J = min(p)
        w = ([2.0, 2.0, 1.0, 1.0] * 4)[:J]
        t = np.zeros(p, dtype=complex if c else float)
        for j in range(J):
            t[tuple([j] * d)] = w[j] * ((1j) ** j if c else 1.0)
        t = t.reshape([v for i in range(d) for v in (rows[i], cols[i])])
        return np.transpose(t, [2 * i for i in range(d)] + [2 * i + 1 for i in range(d)])
    raise ValueError(fam)


def run_tsvd(case, seed):
    import scikit_tt.utils as utl
    r = R(case)
    rng = rng_for({k: case[k] for k in ('m', 'n', 'spec', 'scale', 'c')}, seed)
    m, n = case['m'], case['n']
    k = min(m, n)

    def ortho(p, q):
        a = rng.standard_normal((p, q)) + (1j * rng.standard_normal((p, q)) if case['c'] else 0)
        return np.linalg.qr(a)[0]
    s = {'decay': 10.0 ** (-np.arange(k)), 'flat': np.ones(k), 'gap': np.array([1.0, 0.8, 0.6] + [1e-9] * max(0, k - 3))[:k]}[case['spec']]
    s = s * case['scale']
    A = (ortho(m, k) * s) @ ortho(n, k).conj().T
    thr, mr, rel = case['thr'], case['mr'], case['rel']
    # the cut must not fall on a singular value (the rule is a strict comparison)
    v_ = s / s[0] if rel else s
    if thr != 0 and np.any(np.abs(np.log10(np.maximum(v_, 1e-300) / thr)) < 0.2):
        r.skipped += 1
        return r
    keep = k if thr == 0 else int(np.sum(v_ > thr))
    keep = min(keep, mr) if mr != INF else keep
    r.nontrivial = keep < k
    key = 'truncated_svd:' + ('rel' if rel else 'abs')
    A0 = A.copy()
    with r.op(key + ':call'):
        npt = {'np64': np.int64, 'np32': np.int32}.get(case.get('mrt'))
        u, sv, v = utl.truncated_svd(np.array(A), threshold=thr, max_rank=mr if npt is None else npt(mr), rel_truncation=rel)
        if r.true(key + ':rank', len(sv) == keep and u.shape == (m, keep) and v.shape == (keep, n),
                  'kept %d expected %d (scale %g, threshold %g %s, max_rank %s)' % (len(sv), keep, case['scale'], thr, 'rel' if rel else 'abs', mr)):
            r.close(key + ':singular-values', np.asarray(sv) / s[0], s[:keep] / s[0], 1e-10)
            r.close(key + ':u-orthonormal', u.conj().T @ u, np.eye(keep), 1e-10)
            r.close(key + ':v-orthonormal', v @ v.conj().T, np.eye(keep), 1e-10)
            err = np.linalg.norm(A0 - (u * sv) @ v)
            r.le(key + ':best-approximation', err, np.sqrt(np.sum(s[keep:] ** 2)) * (1 + 1e-8), 1e-10 * s[0])
    return r


def run_over(case, seed):
    """ortho_right / ortho_left with a rank cap >= every bond rank of an over-parameterised train: the tensor is unchanged"""
    from scikit_tt.tensor_train import TT
    r = R(case)
    rng = rng_for({k: case[k] for k in ('sites', 'fam', 'c')}, seed)
    x = make_tensor(case, rng)
    sites = case['sites']; d = len(sites)
    x2 = 0.5 * make_tensor(dict(case, fam='gauss'), rng)
    base = [cc.copy() for cc in TT(np.array(x)).cores]
    base2 = [cc.copy() for cc in TT(np.array(x2)).cores]
    x = x + x2
    # a + b as block cores (bond ranks add up, beyond what the mode sizes admit), then a generic change of gauge on every bond
    cores = []
    for i, (cc, c2) in enumerate(zip(base, base2)):
        rl, m_, n_, rr = cc.shape
        rl2, _, _, rr2 = c2.shape
        if d == 1:
            cores.append(cc + c2); continue
        if i == 0:
            cores.append(np.concatenate([cc, c2], axis=3))
        elif i == d - 1:
            cores.append(np.concatenate([cc, c2], axis=0))
        else:
            blk = np.zeros((rl + rl2, m_, n_, rr + rr2), dtype=np.result_type(cc, c2))
            blk[:rl, :, :, :rr] = cc; blk[rl:, :, :, rr:] = c2
            cores.append(blk)
    for i in range(d - 1):
        k = cores[i].shape[3]
        G = rng.standard_normal((k, k)) + 3 * np.eye(k)
        cores[i] = np.tensordot(cores[i], G, axes=(3, 0))
        cores[i + 1] = np.tensordot(np.linalg.inv(G), cores[i + 1], axes=(1, 0))
    T = tt_from(cores)
    top = max(T.ranks)
    mr = {'maxrank': top, 'maxrank+1': top + 1, 'maxrank-list': list(T.ranks)}[case['mr']]
    mr_given = list(mr) if isinstance(mr, list) else mr
    sizes = [s_[0] * s_[1] for s_ in sites]
    r.nontrivial = any(T.ranks[k] > min(int(np.prod(sizes[:k])), int(np.prod(sizes[k:]))) for k in range(1, d))
    key = 'trunc:' + case['ep']
    nx = np.linalg.norm(x.ravel())
    with r.op(key + ':call'):
        if case['ep'] == 'right_raw_over':
            T.ortho_right(max_rank=mr)
        else:
            T.ortho_left(max_rank=mr)
        mp = meta_problem(T)
        if r.true(key + ':meta', mp is None, mp):
            r.true(key + ':rank-cap', all(a <= top + 1 for a in T.ranks), 'ranks %s' % T.ranks)
            r.le(key + ':non-binding-cap-exact', np.linalg.norm((dn(T) - x).ravel()), 0.0, 1e-10 * max(1.0, nx), 'ranks %s cap %s' % (T.ranks, mr_given))
            r.true(key + ':cap-list-unchanged', mr == mr_given)
    r.outcome = 'over-exact'
    return r


def run_bondthr(case, seed):
    r = R(case)
    rng = rng_for(case, seed)
    sp = np.array(case['spec']) * case['scale']; k = len(sp); thr = case['thr']; c = case['c']
    if np.any(np.abs(np.log(sp / sp[0] / thr)) < 0.2):
        r.skipped += 1          # the cut must not sit on a singular value (D7)
        return r
    n = k + 1

    def iso(p_, q_):
        a_ = rng.standard_normal((p_, q_)) + (1j * rng.standard_normal((p_, q_)) if c else 0)
        return np.linalg.qr(a_)[0]
    U, V = iso(n, k), iso(n, k)
    x = (U * sp) @ V.conj().T                                   # n x n matrix with the prescribed singular values
    if case['side'] == 'left':
        cores = [(U * sp).reshape(1, n, 1, k), V.conj().T.reshape(k, n, 1, 1)]      # bond spectrum sits in the first core
    else:
        cores = [U.reshape(1, n, 1, k), (sp[:, None] * V.conj().T).reshape(k, n, 1, 1)]
    T = tt_from(cores)
    keep = int(np.sum(sp / sp[0] > thr))
    r.nontrivial = keep < k
    key = 'trunc:bond-threshold:' + case['side']
    with r.op(key + ':call'):
        if case['side'] == 'left':
            T.ortho_left(threshold=thr)
        else:
            T.ortho_right(threshold=thr)
        mp = meta_problem(T)
        if r.true(key + ':meta', mp is None, mp):
            r.true(key + ':rank', T.ranks[1] == keep, 'bond rank %d, singular values with s/s0 > %g: %d (spectrum %s)' % (T.ranks[1], thr, keep, case['spec']))
            err = np.linalg.norm(dn(T).reshape(n, n) - x)
            r.le(key + ':error', err, np.sqrt(np.sum(sp[keep:] ** 2)) * (1 + 1e-8), 1e-10 * sp[0], 'discarded part')
    r.outcome = 'bondthr'
    return r


def run_shared(case, seed):
    """truncating sweeps over [a] + [c] * k + [b]: the interior cores are one ndarray object"""
    r = R(case)
    rng = rng_for({k: case[k] for k in ('n', 'd', 'rk', 'c')}, seed)
    n_, d, rk, c = case['n'], case['d'], case['rk'], case['c']

    def g(shp):
        a_ = rng.standard_normal(shp)
        return a_ + 1j * rng.standard_normal(shp) if c else a_
    a, mid, b = g((1, n_, 1, rk)), g((rk, n_, 1, rk)), g((rk, n_, 1, 1))
    from vt.core import dense_cores
    x = dense_cores([a] + [mid] * (d - 2) + [b])[0, ..., 0]
    mid0 = mid.copy()
    T = tt_from([a] + [mid] * (d - 2) + [b])
    T.cores = [T.cores[0]] + [T.cores[1]] * (d - 2) + [T.cores[-1]]          # one array object at every interior site
    mr = case['mr']
    caps = mr if isinstance(mr, list) else [1] + [mr] * (d - 1) + [1]
    mr_arg = list(mr) if isinstance(mr, list) else mr
    sv = [None] + [unfolding_svals(x, d, k) for k in range(1, d)]
    key = 'trunc:' + case['ep']
    r.nontrivial = True
    with r.op(key + ':call'):
        ep = case['ep'][:-len('_shared')]
        if ep == 'ortho':
            T.ortho(max_rank=mr_arg)
        elif ep == 'right_on_left':
            T.ortho_left(); T.ortho_right(max_rank=mr_arg)
        else:
            T.ortho_right(); T.ortho_left(max_rank=mr_arg)
        mp = meta_problem(T)
        if r.true(key + ':meta', mp is None, mp):
            rk_out = list(T.ranks)
            r.true(key + ':rank-cap', all(rk_out[k] <= caps[k] for k in range(1, d)), 'ranks %s cap %s' % (rk_out, caps))
            err = np.linalg.norm((dn(T) - x).ravel())
            bound = np.sqrt(sum(float(np.sum(sv[k][int(caps[k]):] ** 2)) if caps[k] != INF else 0.0 for k in range(1, d)))
            r.le(key + ':quasi-optimal', err, bound * (1 + 1e-8), 1e-10 * max(1.0, np.linalg.norm(x.ravel())), 'caps %s ranks %s' % (caps, rk_out))
    r.outcome = 'shared'
    return r


def run_case(case, seed):
    from scikit_tt.tensor_train import TT
    if case['ep'] == 'tsvd':
        return run_tsvd(case, seed)
    if case['ep'].endswith('_over'):
        return run_over(case, seed)
    if case['ep'].endswith('_shared'):
        return run_shared(case, seed)
    if case['ep'] == 'bondthr':
        return run_bondthr(case, seed)
    r = R(case)
    rng = rng_for({k: case[k] for k in ('sites', 'fam', 'c')}, seed)   # same tensor for all settings of a layout
    x = make_tensor(case, rng)
    unit = case.get('unit', 1.0)
    x = x * unit
    xun = None
    if case['ep'] == 'ortho_wgt':
        # a train straight from TT(array) (every core but the last left-orthonormal) whose FIRST mode is then reweighted from outside:
        # the first core is no longer orthonormal, the later ones still are
        xun = x
        wgt = 1.0 + 2.0 * np.arange(x.shape[0])
        x = x * wgt.reshape([-1] + [1] * (x.ndim - 1))
    sites = case['sites']; d = len(sites)
    ep, thr, mr = case['ep'], case['thr'], case['mr']
    nx = np.linalg.norm(x.ravel())
    sv = [None] + [unfolding_svals(x, d, k) for k in range(1, d)]
    caps = mr if isinstance(mr, list) else [1] + [mr] * (d - 1) + [1]
    mr_arg = list(mr) if isinstance(mr, list) else mr          # the object handed to the library (a per-bond list is an input)
    npt = {'np64': np.int64, 'np32': np.int32}.get(case.get('mrt'))
    if npt is not None:                                        # NumPy integers are documented max_rank types
        mr_arg = [npt(v) if v != INF else v for v in mr_arg] if isinstance(mr, list) else npt(mr)
    mr_given = list(mr_arg) if isinstance(mr, list) else mr_arg
    key = 'trunc:' + ep
    tail = lambda k, rk: float(np.sum(sv[k][int(rk):] ** 2)) if rk != INF else 0.0
    bounded = True
    with r.op(key + ':call'):
        if ep == 'array':
            kw = {}
            if thr != 0:
                kw['threshold'] = thr
            if mr != INF:
                kw['max_rank'] = mr_arg
            T = TT(np.asfortranarray(np.array(x)) if case.get('lay') == 'F' else np.array(x), **kw)
        elif ep == 'ortho_wgt':
            T = TT(np.array(xun))
            T.cores[0] = T.cores[0] * wgt[None, :, None, None]
            T.ortho(max_rank=mr_arg)
        else:
            full = TT(np.array(x))
            cores = [cc.copy() for cc in full.cores]
            # scramble the gauge so the input is a generic (non-orthonormal) representation of x
            for i in range(d - 1):
                k = cores[i].shape[3]
                G = rng.standard_normal((k, k)) + 3 * np.eye(k)
                cores[i] = np.tensordot(cores[i], G, axes=(3, 0))
                cores[i + 1] = np.tensordot(np.linalg.inv(G), cores[i + 1], axes=(1, 0))
            if ep == 'cores':
                T = TT(cores, max_rank=mr_arg)
            else:
                T = tt_from(cores)
                if ep == 'ortho':
                    T.ortho(max_rank=mr_arg)
                elif ep == 'ortho_hist':
                    # history on one object: left sweep, then every bond is re-gauged from outside (new core arrays, same
                    # tensor), then the truncating two-sided sweep
                    T.ortho_left()
                    for i in range(d - 1):
                        k = T.cores[i].shape[3]
                        G = rng.standard_normal((k, k)) + 3 * np.eye(k)
                        T.cores[i] = np.tensordot(T.cores[i], G, axes=(3, 0))
                        T.cores[i + 1] = np.tensordot(np.linalg.inv(G), T.cores[i + 1], axes=(1, 0))
                    T.ortho(max_rank=mr_arg)
                elif ep == 'right_on_left':
                    T.ortho_left(); T.ortho_right(max_rank=mr_arg)
                elif ep == 'left_on_right':
                    T.ortho_right(); T.ortho_left(max_rank=mr_arg)
                elif ep == 'right_raw':
                    T.ortho_right(max_rank=mr_arg); bounded = False
                elif ep == 'left_raw':
                    T.ortho_left(max_rank=mr_arg); bounded = False
        if isinstance(mr, list):
            r.true(key + ':cap-list-unchanged', mr_arg == mr_given and all(type(a_) is type(b_) for a_, b_ in zip(mr_arg, mr_given)),
                   'the per-bond max_rank list was modified: %s -> %s' % (mr_given, mr_arg))
        mp = meta_problem(T)
        if not r.true(key + ':meta', mp is None, mp):
            return r
        r.true(key + ':dims', [list(s) for s in zip(T.row_dims, T.col_dims)] == [list(s) for s in sites])
        rk = list(T.ranks)
        # (i) rank cap
        r.true(key + ':rank-cap', all(rk[k] <= caps[k] for k in range(1, d)), 'ranks %s cap %s' % (rk, caps))
        full_rank = [1] + [int(np.sum(sv[k] > 1e-11 * sv[k][0])) for k in range(1, d)] + [1]
        r.nontrivial = any(rk[k] < full_rank[k] for k in range(1, d))
        r.outcome = 'truncated' if r.nontrivial else 'exact'
        if bounded:
            err = np.linalg.norm((dn(T) - x).ravel())
            slack = (1e-10 if case['fam'] != 'deep' else 2e-12) * (max(1.0, nx) if unit == 1.0 else nx)
            if thr == 0:
                # (ii) quasi-optimality with the requested caps
                bound = np.sqrt(sum(tail(k, caps[k]) for k in range(1, d)))
                r.le(key + ':quasi-optimal', err, bound * (1 + 1e-8), slack, 'caps %s ranks %s' % (caps, rk))
                if all(cp == INF for cp in caps[1:-1]):
                    r.le(key + ':exact', err, 0.0, slack)     # (iv)
            else:
                # universal bound with the returned ranks, and rank cap
                bound = np.sqrt(sum(tail(k, rk[k]) for k in range(1, d)))
                r.le(key + ':svd-bound', err, bound * (1 + 1e-8), slack, 'ranks %s' % rk)
                if mr == INF:
                    # (iii) relative threshold bound: discarded directions counted by the oracle
                    disc = 0
                    for k in range(1, d):
                        m = rk[k - 1] * sites[k - 1][0] * sites[k - 1][1]
                        n = int(np.prod([s[0] * s[1] for s in sites[k:]]))
                        disc += min(m, n) - rk[k]
                    r.le(key + ':threshold-bound', err, thr * nx * np.sqrt(max(disc, 0)) * (1 + 1e-8), slack,
                         'thr %g discarded %d' % (thr, disc))
        else:
            r.count('rank_cap_only')
    return r
