"""C20 — quantum sampling draws from the Born distribution of the measured qubits (inverse-CDF, exact conditionals)."""
import itertools, sys, types
import numpy as np
from vt.core import R, rng_for, rand_cores, tt_from, vec, admissible_ranks, max_ranks, snap, unchanged

ID = 'C20'
LEVEL = 'exploration'
RULE = ('complete enumeration of qubit count x rank vector (all admissible vectors over {1,2,max}) x EVERY non-empty subset of '
        'measured sites; per point the environment answers (uniform variates) are enumerated: for every one of the 2^k outcome '
        'paths a row just inside each conditional threshold (P0 -/+ 1e-9) and a row at the interval midpoints, injected by '
        'patching numpy.random.rand; additional runs with 1 sample, with multiplicities 1,2,3 and with 70 001 (thorough: 140 003) rows of fixed variates on entangled states; a strongly polarised product state per subset (rare prefixes, probability ~1e-4^k); after the first round the SAME state object is changed in place (bit flip) and sampled again. Oracle: dense inverse-CDF '
        'sampler on |psi|^2 marginalised over the unmeasured sites. Non-trivial: every case.')
ASSUMPTIONS = ['state normalised and right-orthonormal (D4)', 'measured sites given in increasing order', 'outcome paths whose conditional probability is within 2e-9 of 0 or 1 cannot be realised by a variate and are skipped (counted)',
               'the statement about large sample counts is a consequence (law of large numbers applied to the exactly checked inverse-CDF map), not enumerated']
CHUNK = 8


def space(tier):
    return {'qubits': [1, 2, 3, 4] if tier == 'quick' else [1, 2, 3, 4, 5, 6], 'ranks': 'admissible over {1,2,max}', 'measured subsets': 'all non-empty',
            'variates': 'per outcome path: thresholds -/+ 1e-9 and midpoints', 'sample counts': [1, 'number of paths', 70001, 140003]}


def _qc():
    if 'matplotlib' not in sys.modules:
        m = types.ModuleType('matplotlib'); m.pyplot = types.ModuleType('matplotlib.pyplot')
        sys.modules['matplotlib'] = m; sys.modules['matplotlib.pyplot'] = m.pyplot
    import scikit_tt.quantum_computation as qc
    return qc


def cases(tier):
    # registers beyond 64 qubits in product states (the dense oracle factorises over the sites)
    for n in (66, 70):
        for S in (list(range(n)), list(range(0, n, 2)) + [n - 1] if n % 2 == 0 else list(range(0, n, 2))):
            yield {'n': n, 'r': [1] * (n + 1), 'S': sorted(set(S)), 'big': True}
    # long ENTANGLED complex chains (bond rank 2 and 3), every qubit measured: the prefix probabilities fall to 2^-60, far below
    # machine epsilon in absolute terms, while the conditional probabilities stay of order one
    for n, rb in ((60, 2), (56, 3)) if tier == 'quick' else ((60, 2), (56, 3), (90, 2), (64, 4)):
        yield {'n': n, 'r': [1] + [int(min(rb, 2 ** min(i, n - i, 10))) for i in range(1, n)] + [1], 'S': list(range(n)), 'bigent': True}
    # sample counts beyond 2^16 and 2^17 on entangled states (maximal ranks): every sample row is an environment answer
    for n, S in ((2, [0, 1]), (3, [0, 1, 2]), (3, [0, 2]), (4, [1, 3])):
        for ns in ((70001,) if tier == 'quick' else (70001, 140003)):
            yield {'n': n, 'r': max_ranks([2] * n), 'S': S, 'many': ns}
    # structured states with exact cancellations in their bond amplitudes: GHZ, Hadamard-rotated GHZ, GHZ with a Hadamard
    # gauge on every bond (the left environments of some prefixes have entries that sum to exactly zero)
    # plotting switched on (a flag that must not change what is returned), more than 16 outcomes
    yield {'n': 5, 'r': max_ranks([2] * 5), 'S': [0, 1, 2, 3, 4], 'plot': True}
    for n in ([2, 3, 4] if tier == 'quick' else [2, 3, 4, 5, 6]):
        for kind in ('ghz', 'hghz', 'ghz-hgauge', 'phase-product', 'phase-ghz', 'iso-odd-complex', 'iso-even-complex'):
            for k in range(1, n + 1):
                for S in itertools.combinations(range(n), k):
                    yield {'n': n, 'r': [1] + [2] * (n - 1) + [1], 'S': list(S), 'struct': kind}
    if tier == 'quick':
        for kind in ('iso-odd-complex', 'iso-even-complex'):
            for S in ([0, 2, 4], [1, 3], [0, 2], [2, 4], [0, 4], [1, 3, 4], [0, 1, 2, 3, 4]):
                yield {'n': 5, 'r': [1, 2, 2, 2, 2, 1], 'S': list(S), 'struct': kind}
    for n in ([1, 2, 3, 4] if tier == 'quick' else [1, 2, 3, 4, 5, 6]):
        mr = max_ranks([2] * n)
        alph = sorted({1, 2, max(mr)})
        for rk in admissible_ranks([2] * n, alph):
            for k in range(1, n + 1):
                for S in itertools.combinations(range(n), k):
                    yield {'n': n, 'r': rk, 'S': list(S)}
                    if max(rk) == 1:
                        # strongly polarised product state: outcome prefixes with probability ~1e-4^k (rare prefixes)
                        yield {'n': n, 'r': rk, 'S': list(S), 'pol': True}


def run_case(case, seed):
    qc = _qc()
    r = R(case)
    if case.get('big'):
        return run_big(case, r, qc, seed)
    if case.get('bigent'):
        return run_bigent(case, r, qc, seed)
    rng = rng_for({'n': case['n'], 'r': case['r']}, seed)
    n, rk, S = case['n'], case['r'], case['S']
    k = len(S)
    if case.get('struct'):
        H2 = np.array([[1.0, 1.0], [1.0, -1.0]]) / np.sqrt(2)
        cores = []
        for i in range(n):
            c = np.zeros((1 if i == 0 else 2, 2, 1, 1 if i == n - 1 else 2), dtype=complex)
            for a in range(2):
                c[0 if i == 0 else a, a, 0, 0 if i == n - 1 else a] = 1.0 / np.sqrt(2) if i == 0 else 1.0
            cores.append(c)
        if case['struct'] in ('phase-product', 'phase-ghz'):
            # hand-built states whose FIRST core is stored with a real dtype while later cores carry genuine phases
            cores = []
            for i in range(n):
                rl = 1 if (i == 0 or case['struct'] == 'phase-product') else 2
                rr = 1 if (i == n - 1 or case['struct'] == 'phase-product') else 2
                c = np.zeros((rl, 2, 1, rr), dtype=float if i == 0 else complex)
                if case['struct'] == 'phase-product':
                    th_ = 0.5 + 0.3 * i
                    c[0, 0, 0, 0] = np.cos(th_); c[0, 1, 0, 0] = np.sin(th_) * (1.0 if i == 0 else np.exp(1j * (0.7 + i)))
                else:
                    for a in range(2):
                        ph = 1.0 if (i == 0 or a == 0) else np.exp(1j * (0.4 + 0.9 * i))
                        c[0 if i == 0 else a, a, 0, 0 if i == n - 1 else a] = (1.0 / np.sqrt(2) if i == 0 else 1.0) * ph
                    if 0 < i < n - 1 or (i == n - 1 and n > 1):
                        # mix the two branches on the later cores so that the phases matter for the probabilities
                        Hm = np.array([[1.0, 1.0], [1.0, -1.0]]) / np.sqrt(2)
                        c = np.einsum('st,atcb->ascb', Hm, c)
                cores.append(c)
        if case['struct'] in ('iso-odd-complex', 'iso-even-complex'):
            # every core a row isometry by itself (a right-orthonormal, normalised chain as it stands), bond rank 2; complex dtype only
            # at the odd (even) sites, real dtype at the others -- so a measured subset can consist of real-dtype cores only
            cores = []
            par = 1 if case['struct'] == 'iso-odd-complex' else 0
            for i in range(n):
                rl = 1 if i == 0 else 2; rr = 1 if i == n - 1 else 2
                cx = i % 2 == par
                a_ = rng.standard_normal((2 * rr, rl)) + (1j * rng.standard_normal((2 * rr, rl)) if cx else 0)
                q_ = np.linalg.qr(a_)[0]                       # (2 rr, rl) with orthonormal columns
                cores.append(np.ascontiguousarray(q_.conj().T).reshape(rl, 2, 1, rr))
        if case['struct'] == 'hghz':
            cores = [np.einsum('st,atcb->ascb', H2, c) for c in cores]
        elif case['struct'] == 'ghz-hgauge':
            for i in range(n - 1):
                cores[i] = np.einsum('ascb,bd->ascd', cores[i], H2)
                cores[i + 1] = np.einsum('ab,bscd->ascd', H2, cores[i + 1])
        st = tt_from(cores)
    elif case.get('pol'):
        cores = []
        for i in range(n):
            c = np.zeros((1, 2, 1, 1), dtype=complex)
            c[0, 0, 0, 0] = np.sqrt(1 - 1e-4); c[0, 1, 0, 0] = 1e-2 * np.exp(1j * (0.3 + i))
            cores.append(c)
        st = tt_from(cores)
    else:
        st = tt_from(rand_cores(rng, [2] * n, [1] * n, rk, True))
        st.ortho_right()
        st = (1.0 / st.norm()) * st
    r.nontrivial = True
    if case.get('many'):
        return run_many(r, qc, st, n, S, k, case['many'], rng)
    if case.get('plot'):
        return _run_state(r, qc, st, n, S, k, second_round=False, plot=True)
    return _run_state(r, qc, st, n, S, k, second_round=True)


def run_big(case, r, qc, seed):
    n, S = case['n'], case['S']
    k = len(S)
    rng = rng_for({'n': n, 'big': 1}, seed)
    th = rng.uniform(0.2, np.pi / 2 - 0.2, n); ph = rng.uniform(0, 2 * np.pi, n)
    cores = []
    for i in range(n):
        c = np.zeros((1, 2, 1, 1), dtype=complex); c[0, 0, 0, 0] = np.cos(th[i]); c[0, 1, 0, 0] = np.sin(th[i]) * np.exp(1j * ph[i])
        cores.append(c)
    st = tt_from(cores)
    s0 = snap(st)
    P0 = np.cos(th[S]) ** 2
    r.nontrivial = True
    # rows: all-zero outcome, all-one outcome, and outcomes that differ only in the first / only in the last measured sites
    rows = [P0 - 1e-6, P0 + 1e-6]
    for j in (0, 1, 2, k - 3, k - 2, k - 1):
        u = P0 - 1e-6; u = u.copy(); u[j] = P0[j] + 1e-6; rows.append(u)
    U = np.array(rows)
    want = (U > P0[None, :]).astype(float)
    ws, cnt = np.unique(want, return_counts=True, axis=0)
    orig = np.random.rand
    np.random.rand = lambda *shape: U.copy()
    try:
        with r.op('sampling:large-register:call'):
            smp, prob = qc.sampling(st, list(S), U.shape[0])
            smp = np.asarray(smp); prob = np.asarray(prob)
            r.true('sampling:large-register:inverse-cdf', smp.shape == ws.shape and np.array_equal(smp, ws) and np.allclose(prob, cnt / U.shape[0], rtol=0, atol=1e-15),
                   '%d distinct outcomes returned, %d expected (%d measured sites)' % (smp.shape[0], ws.shape[0], k))
    finally:
        np.random.rand = orig
    r.true('sampling:state-unchanged', unchanged(st, s0))
    return r


def run_bigent(case, r, qc, seed):
    """chain oracle: P(x_i | x_<i) = |L A_i[x_i]|^2 / sum_x |L A_i[x]|^2 with the (renormalised) amplitude row vector L of the prefix;
    valid because every core behind is right-orthonormal"""
    n = case['n']; rk = case['r']
    rng = rng_for({'n': n, 'bigent': 1, 'r': rk}, seed)
    cs = [rng.standard_normal((rk[i], 2, 1, rk[i + 1])) + 1j * rng.standard_normal((rk[i], 2, 1, rk[i + 1])) for i in range(n)]
    for i in range(n - 1, 0, -1):                   # right-orthonormalise by a QR sweep in plain NumPy
        m_ = cs[i].reshape(rk[i], -1)
        q_, r_ = np.linalg.qr(m_.conj().T)          # m_ = r_^H q_^H
        cs[i] = q_.conj().T.reshape(rk[i], 2, 1, rk[i + 1])
        cs[i - 1] = np.tensordot(cs[i - 1], r_.conj().T, axes=(3, 0))
    cs[0] = cs[0] / np.linalg.norm(cs[0])
    st = tt_from(cs)
    s0 = snap(st)
    r.nontrivial = True
    pats = [np.zeros(n, int), np.ones(n, int), np.arange(n) % 2, (np.arange(n) // 3) % 2] + [rng.integers(0, 2, n) for _ in range(6)]
    U = np.zeros((len(pats), n)); want = np.zeros((len(pats), n))
    for a, bits in enumerate(pats):
        L = np.ones((1, 1), dtype=complex)
        for i in range(n):
            amp = [L @ cs[i][:, x_, 0, :] for x_ in (0, 1)]
            p = np.array([np.linalg.norm(v) ** 2 for v in amp])
            p0 = p[0] / p.sum()
            b = int(bits[i])
            if p0 < 1e-4:
                b = 1
            elif p0 > 1 - 1e-4:
                b = 0
            U[a, i] = p0 + 1e-6 if b else p0 - 1e-6
            want[a, i] = b
            L = amp[b] / np.linalg.norm(amp[b])
    ws, cnt = np.unique(want, return_counts=True, axis=0)
    orig = np.random.rand
    np.random.rand = lambda *shape: U.copy()
    try:
        with r.op('sampling:long-entangled-chain:call'):
            smp, prob = qc.sampling(st, list(range(n)), U.shape[0])
            smp = np.asarray(smp); prob = np.asarray(prob)
            ok = smp.shape == ws.shape and np.array_equal(smp, ws) and np.allclose(prob, cnt / U.shape[0], rtol=0, atol=1e-15)
            first = -1
            if smp.shape == ws.shape and not ok:
                dif = np.argwhere(smp != ws)
                first = int(dif[:, 1].min()) if len(dif) else -1
            r.true('sampling:long-entangled-chain:inverse-cdf', ok, '%d distinct outcomes returned, %d expected; first differing qubit %d of %d' % (smp.shape[0], ws.shape[0], first, n))
    finally:
        np.random.rand = orig
    r.true('sampling:state-unchanged', unchanged(st, s0))
    r.outcome = 'long-chain'
    return r


def run_many(r, qc, st, n, S, k, ns, rng):
    """one call with ns > 2^16 samples: every row of injected variates must be mapped by the exact inverse CDF"""
    s0 = snap(st)
    p = np.abs(vec(st).reshape([2] * n)) ** 2
    marg = p.sum(axis=tuple(i for i in range(n) if i not in S)).reshape([2] * k)
    U = rng.random((ns, k))
    out = np.zeros((ns, k))
    for i in range(k):
        for prefix in itertools.product([0, 1], repeat=i):
            mask = np.all(out[:, :i] == np.array(prefix)[None, :], axis=1) if i else np.ones(ns, dtype=bool)
            sub = marg[tuple(prefix)]
            q0 = sub[(0,) + (slice(None),) * (k - i - 1)].sum() / sub.sum()
            near = mask & (np.abs(U[:, i] - q0) < 1e-9)
            U[near, i] = q0 / 2
            out[mask, i] = U[mask, i] > q0
    ws, cnt = np.unique(out, return_counts=True, axis=0)
    orig = np.random.rand
    np.random.rand = lambda *shape: U.copy()
    try:
        with r.op('sampling:many-samples:call'):
            smp, prob = qc.sampling(st, list(S), ns)
            smp = np.asarray(smp); prob = np.asarray(prob)
            r.true('sampling:many-samples:inverse-cdf', smp.shape == ws.shape and np.array_equal(smp, ws) and np.allclose(prob, cnt / ns, rtol=0, atol=1e-15),
                   '%d samples: outcomes %s with frequencies %s, expected %s %s' % (ns, smp.tolist(), np.round(prob, 5).tolist(), ws.tolist(), np.round(cnt / ns, 5).tolist()))
    finally:
        np.random.rand = orig
    r.true('sampling:state-unchanged', unchanged(st, s0))
    return r


def _run_state(r, qc, st, n, S, k, second_round, plot=False):
    s0 = snap(st)
    psi = vec(st).reshape([2] * n)
    p = np.abs(psi) ** 2
    marg = p.sum(axis=tuple(i for i in range(n) if i not in S)).reshape([2] * k)

    def p0(prefix):
        sub = marg[tuple(prefix)]
        tot = sub.sum()
        return sub[(0,) + (slice(None),) * (k - len(prefix) - 1)].sum() / tot if tot > 0 else 0.5

    rows = []; paths = []
    skipped = 0
    for path in itertools.product([0, 1], repeat=k):
        lo = []; mid = []
        ok = True
        for i in range(k):
            q0 = p0(path[:i])
            if path[i] == 0:
                if q0 < 2e-9:
                    ok = False; break
                lo.append(q0 - 1e-9); mid.append(q0 / 2)
            else:
                if q0 > 1 - 2e-9:
                    ok = False; break
                lo.append(q0 + 1e-9); mid.append((1 + q0) / 2)
        if not ok:
            skipped += 1
            continue
        rows.append(lo); paths.append(path)
        rows.append(mid); paths.append(path)
    r.skipped += skipped
    if not rows:
        return r

    def oracle(U):
        out = np.zeros(U.shape)
        for a in range(U.shape[0]):
            pre = []
            for i in range(k):
                pre.append(int(U[a, i] > p0(pre)))
            out[a] = pre
        smp, cnt = np.unique(out, return_counts=True, axis=0)
        return smp, cnt / U.shape[0]

    def run(U, tag):
        U = np.array(U, dtype=float)
        orig = np.random.rand
        calls = []

        def fake(*shape):
            calls.append(shape)
            if tuple(shape) != U.shape:
                raise AssertionError('sampler asked for variates of shape %s, harness prepared %s' % (shape, U.shape))
            return U.copy()
        np.random.rand = fake
        try:
            with r.op('sampling:call'):
                smp, prob = qc.sampling(st, list(S), U.shape[0], plot_tf=True) if plot else qc.sampling(st, list(S), U.shape[0])
                ws, wp = oracle(U)
                smp = np.asarray(smp); prob = np.asarray(prob)
                r.true('sampling:variates-requested-once', len(calls) == 1, 'np.random.rand called %d times' % len(calls))
                if r.true('sampling:shape', smp.ndim == 2 and smp.shape[1] == k and prob.shape == (smp.shape[0],), '%s %s' % (smp.shape, prob.shape)):
                    r.true('sampling:frequencies-sum-to-one', abs(prob.sum() - 1) <= 1e-12, 'sum %r' % prob.sum())
                    r.true('sampling:rows-distinct-sorted', len({tuple(x) for x in smp}) == smp.shape[0] and
                           [tuple(x) for x in smp] == sorted(tuple(x) for x in smp))
                    r.true('sampling:inverse-cdf:%s' % tag, smp.shape == ws.shape and np.array_equal(smp, ws) and np.allclose(prob, wp, rtol=0, atol=1e-15),
                           'got %s %s expected %s %s' % (smp.tolist(), prob.tolist(), ws.tolist(), wp.tolist()))
        finally:
            np.random.rand = orig
    run(rows, 'all-paths')
    run(rows[:1], 'single-sample')
    mult = []
    for j in range(0, len(rows), 2):
        mult += [rows[j + 1]] * ((j // 2) % 3 + 1)
    run(mult, 'multiplicities')
    r.true('sampling:state-unchanged', unchanged(st, s0), 'input state modified')
    if second_round:
        # the same TT object evolves in place (bit flip on the first measured site: keeps norm and right-orthonormality of
        # the cores it does not touch unless it is core 0, which carries the norm) and is sampled again: nothing may be
        # remembered from the first call
        j = S[0]
        if j == 0 or True:
            st.cores[j] = np.ascontiguousarray(st.cores[j][:, ::-1, :, :])
        _run_state(r, qc, st, n, S, k, second_round=False)
    return r
