"""C18 — tensor-based EDMD (AMUSEt): equals matrix EDMD; index-set pairs are treated independently."""
import itertools
import numpy as np
from vt.core import R, rng_for, dn, meta_problem, quiet
from vt.props.c15 import reps, NREP, psi_oracle

ID = 'C18'
LEVEL = 'exploration'
RULE = ('complete enumeration of state dimension {1,2} x snapshot count 4..8 x product basis (2-3 modes x 2-3 functions, mode k on '
        'coordinate k mod d) x EVERY pair of contiguous index windows (length >= 2, lag 1-2) as single call, plus every ordered '
        'pair and triple from the first windows as batched call (list position 0,1,2) x HOSVD threshold {1e-12,1e-6} x max_rank '
        '{inf,3} x (ef_tf, st_tf) x variant (HOSVD, HOCUR). Oracles: dense EDMD eig(pinv(Psi_x^T, 1e-3) Psi_y^T) at negligible '
        'HOSVD truncation; eigen-equation for real pairs; differential oracle batched output k == single call with pair k '
        '(eigenvalues bit-equal, tensors equal, objects distinct, consistent metadata). Non-trivial: every case.')
ASSUMPTIONS = ['numpy pinv/eig on the dense transformed data matrices are the reference; the routine\'s internal relative cut of 1e-3 on the x-part is part of the reference',
               'cases whose singular spectrum of Psi_x has a value within [1e-4,1e-2] of the largest are skipped (no gap at the internal cut)',
               'eigen-equation only for pairs whose dense counterpart is real', 'HOCUR variant: dense oracle only with complete column candidates (ranks >= m, multiplier >= mode sizes)']
CHUNK = 8


def space(tier):
    return {'d': [1, 2], 'm': [4, 5, 6, 7, 8], 'bases': '2-3 modes x 2-3 functions', 'windows': 'all contiguous, len>=2, lag 1-2', 'list lengths': [1, 2, 3],
            'threshold': [1e-12, 1e-6], 'max_rank': ['inf', 3], 'flags': 'ef_tf x st_tf', 'variants': ['hosvd', 'hocur']}


def all_windows(m):
    out = []
    for L in range(2, m):
        for lag in (1, 2):
            for a in range(0, m - lag - L + 1):
                out.append((list(range(a, a + L)), list(range(a + lag, a + lag + L))))
    return out


def cases(tier):
    q = tier == 'quick'
    # the eigenvalues do not depend on the units of the basis functions: monomials with prefactor 1e-6 in both modes (transformed
    # data of magnitude 1e-12) against the same monomials with prefactor one, HOSVD threshold 1e-12 (a RELATIVE cut) and 1e-6
    for m_ in (12, 16):
        for thr_ in (1e-12, 1e-6):
            yield {'units': True, 'm': m_, 'thr': thr_, 'd': 2, 'ws': [], 'iset': []}
    # almost reversible pairs: every transition a_j -> b_j is also used backwards from a re-measured copy of b_j (relative noise eps):
    # the reduced matrix is symmetric up to ~eps but NOT symmetric; well-conditioned 4-function basis, compared at 1e-10
    for N_ in (40, 200):
        for eps_ in (5e-6, 5e-5):
            yield {'nearrev': True, 'N': N_, 'eps': eps_, 'd': 2, 'm': 3 * N_, 'ws': [], 'iset': []}
    # a singular value of Psi_x only 1.4 times above the routine's internal relative cut of 1e-3, next to three equal dominant
    # ones (indicator features with disjoint supports, so the spectrum is known in closed form)
    for per in (2, 3):
        for var in ('hosvd', 'hocur'):
            for ratio in (1.4e-3, 1.6e-3, 3e-4, 5e-4):
                cs = {'near': True, 'per': per, 'ratio': ratio, 'var': var, 'd': 3, 'm': 4 * per + 1, 'ws': [], 'iset': [[list(range(4 * per)), list(range(1, 4 * per + 1))]]}
                if ratio < 1e-3:
                    cs['count_only'] = True      # a direction 2-3 times BELOW the 1e-3 cut: it has to be discarded (number of eigenvalues)
                if var == 'hosvd':
                    cs.update({'thr': 1e-12, 'mr': 'inf', 'fl': [0, 0]})
                yield cs
    for d in (1, 2):
        for m in ((4, 6, 8) if q else (4, 5, 6, 7, 8)):
            for ws in ([(1, 2), (3, 2)], [(0, 3), (2, 2)], [(1, 2), (3, 2), (4, 2)], [(0, 2), (1, 3)]):
                W = all_windows(m)
                sets = [[w] for w in W]
                first = W[:4] if q else W[:8]
                sets += [[a, b] for a, b in itertools.permutations(first, 2)]
                sets += [list(t) for t in itertools.permutations(W[:3], 3)]
                for iset in sets:
                    for var in ('hosvd', 'hocur'):
                        if var == 'hosvd':
                            for thr in (1e-12, 1e-6, 0, 0.0):
                                for mr in ('inf', 3):
                                    for fl in ((0, 0), (1, 0), (0, 1), (1, 1)):
                                        if fl != (0, 0) and (thr != 1e-12 or mr != 'inf'):
                                            continue
                                        if thr == 0 and (mr != 'inf' or len(iset) > 1):
                                            continue      # an explicit zero threshold (int and float): no truncation at all
                                        yield {'d': d, 'm': m, 'ws': [list(w) for w in ws], 'iset': iset, 'var': var, 'thr': thr, 'mr': mr, 'fl': list(fl)}
                        else:
                            if len(iset) > 1 or len(iset[0][0]) >= 2:
                                yield {'d': d, 'm': m, 'ws': [list(w) for w in ws], 'iset': iset, 'var': var}
                # representations of the index sets and of max_rank: int32 arrays, boolean masks; NumPy integer max_rank
                for iset in [[w] for w in W]:
                    for irep in ('int32', 'mask'):      # (a plain list means a LIST OF index sets, so single sets are always arrays)
                        yield {'d': d, 'm': m, 'ws': [list(w) for w in ws], 'iset': iset, 'var': 'hosvd', 'thr': 1e-12, 'mr': 'inf', 'fl': [0, 0], 'irep': irep}
                    for mrt in ('np64', 'np32'):
                        yield {'d': d, 'm': m, 'ws': [list(w) for w in ws], 'iset': iset, 'var': 'hosvd', 'thr': 1e-6, 'mr': 3, 'fl': [0, 0], 'mrt': mrt}
                for iset in [[W[0], W[-1]], [W[1], W[0]]]:
                    yield {'d': d, 'm': m, 'ws': [list(w) for w in ws], 'iset': iset, 'var': 'hosvd', 'thr': 1e-12, 'mr': 'inf', 'fl': [0, 0], 'irep': 'mask'}
                    yield {'d': d, 'm': m, 'ws': [list(w) for w in ws], 'iset': iset, 'var': 'hocur', 'irep': 'mask'}
                # index sets that are not ascending windows: periodic wrap-around lag, time-symmetrised pairs (x u y, y u x),
                # unsorted x with y = x + 1 — the pairing x_j -> y_j is what defines the operator
                L = min(m - 1, 4)
                wrap = [(list(range(m - L, m)) + [0], [(t_ + 1) % m for t_ in list(range(m - L, m)) + [0]])]
                sym = [(list(range(0, L)) + list(range(1, L + 1)), list(range(1, L + 1)) + list(range(0, L)))]
                perm = [([2, 0, 3, 1][:L], [3, 1, 4, 2][:L])] if m >= 6 else []
                for pr in wrap + sym + perm:
                    for var in ('hosvd', 'hocur'):
                        cs = {'d': d, 'm': m, 'ws': [list(w) for w in ws], 'iset': [[list(pr[0]), list(pr[1])]], 'var': var}
                        if var == 'hosvd':
                            cs.update({'thr': 1e-12, 'mr': 'inf', 'fl': [0, 0]})
                        yield cs
                # progress output switched on (a flag that must not change results)
                for iset in [[W[0]], [W[-1]], [W[0], W[-1]]]:
                    yield {'d': d, 'm': m, 'ws': [list(w) for w in ws], 'iset': iset, 'var': 'hocur', 'progress': True}
                    yield {'d': d, 'm': m, 'ws': [list(w) for w in ws], 'iset': iset, 'var': 'hosvd', 'thr': 1e-12, 'mr': 'inf', 'fl': [0, 0], 'progress': True}
                if d == 1:
                    for iset in [[w] for w in W]:
                        for ws_i in (ws, [(3, 2), (1, 2)], [(4, 3), (3, 2)]):      # also bases whose FIRST mode is non-integer valued
                            yield {'d': d, 'm': m, 'ws': [list(w) for w in ws_i], 'iset': iset, 'var': 'hosvd', 'thr': 1e-12, 'mr': 'inf', 'fl': [0, 0], 'dt': 'int'}
                            if len(iset[0][0]) >= 2:
                                yield {'d': d, 'm': m, 'ws': [list(w) for w in ws_i], 'iset': iset, 'var': 'hocur', 'dt': 'int'}


def run_units(case, seed):
    import scikit_tt.data_driven.transform as tdt
    import scikit_tt.data_driven.tedmd as tedmd
    r = R(case)
    rng = rng_for(case, seed)
    m = case['m']
    x = rng.uniform(-1.5, 1.5, size=(2, m + 1))
    xi, yi = np.arange(m), np.arange(1, m + 1)
    r.nontrivial = True
    out = {}
    for pf in (1.0, 1e-6):
        basis = [[tdt.Monomial(i, e, prefactor=pf if e > 0 else pf) for e in range(3)] for i in range(2)]
        with r.op('amuset_hosvd:units:call'):
            with quiet():
                ev, et = tedmd.amuset_hosvd(x, xi, yi, basis, threshold=case['thr'])
            out[pf] = np.asarray(ev)
    if 1.0 in out and 1e-6 in out:
        r.true('amuset_hosvd:units:eigenvalue-count', out[1.0].shape == out[1e-6].shape, '%d eigenvalues with prefactor 1, %d with prefactor 1e-6' % (len(out[1.0]), len(out[1e-6])))
        if out[1.0].shape == out[1e-6].shape:
            r.close('amuset_hosvd:units:eigenvalues', out[1e-6], out[1.0], 1e-7, 'basis functions rescaled by 1e-6 per mode')
    return r


def run_nearrev(case, seed):
    import scikit_tt.data_driven.transform as tdt
    import scikit_tt.data_driven.tedmd as tedmd
    r = R(case)
    rng = rng_for(case, seed)
    N, eps = case['N'], case['eps']
    a = rng.standard_normal((2, N)) + 0.5
    b = 0.5 * a + 0.8 * rng.standard_normal((2, N)) + 0.3
    bp = b * (1 + eps * rng.standard_normal((2, N)))
    data = np.hstack([a, b, bp])
    xi = np.concatenate([np.arange(0, N), np.arange(2 * N, 3 * N)]); yi = np.concatenate([np.arange(N, 2 * N), np.arange(0, N)])
    basis = [[tdt.ConstantFunction(i), tdt.Identity(i)] for i in range(2)]
    P = np.array([np.kron([1.0, data[0, j]], [1.0, data[1, j]]) for j in range(data.shape[1])]).T
    Px, Py = P[:, xi], P[:, yi]
    sv = np.linalg.svd(Px, compute_uv=False)
    k = int(np.sum(sv / sv[0] > 1e-3))
    Kt = np.linalg.pinv(Px.T, rcond=1e-3) @ Py.T
    w = np.linalg.eigvals(Kt)
    w = w[np.argsort(-np.abs(w))][:k]
    w = w[np.argsort(np.abs(w - 1))]
    r.nontrivial = True
    if np.max(np.abs(w.imag)) > 1e-12 or k != 4 or np.min(np.abs(np.diff(np.sort(np.abs(w - 1))))) < 1e-3:
        r.skipped += 1
        return r
    with r.op('amuset_hosvd:almost-reversible:call'):
        with quiet():
            ev, et = tedmd.amuset_hosvd(data, xi, yi, basis, threshold=0)
        ev = np.asarray(ev)
        if r.true('amuset_hosvd:almost-reversible:eigenvalue-count', ev.shape == (k,), '%s' % (ev.shape,)):
            r.true('amuset_hosvd:almost-reversible:eigenvalues', np.max(np.abs(ev - np.real(w))) <= 1e-10 * sv[0] / sv[k - 1],
                   'max deviation %.3e from the dense EDMD eigenvalues (asymmetry of the reduced matrix ~%g)' % (np.max(np.abs(ev - np.real(w))), eps))
            if meta_problem(et) is None:
                Xi = dn(et).reshape(-1, k)
                res = max(np.linalg.norm(Kt @ Xi[:, j] - ev[j] * Xi[:, j]) / np.linalg.norm(Xi[:, j]) for j in range(k))
                r.true('amuset_hosvd:almost-reversible:eigen-equation', res <= 1e-10 * sv[0] / sv[k - 1], 'residual %.3e' % res)
    return r


def run_case(case, seed):
    if case.get('units'):
        return run_units(case, seed)
    if case.get('nearrev'):
        return run_nearrev(case, seed)
    from scikit_tt.data_driven import tedmd
    r = R(case)
    rng = rng_for({k: case[k] for k in ('d', 'm', 'ws')}, seed)
    d, m = case['d'], case['m']
    x = rng.uniform(-1.5, 1.5, size=(d, m))
    if case.get('dt') == 'int':
        x = rng.integers(-3, 4, size=(d, m))          # integer dtype: the transformed data are real-valued all the same
        for c_ in range(d):                            # distinct snapshots
            x[c_] = x[c_] + 7 * np.arange(m) * (c_ == 0)
    if case.get('near'):
        import scikit_tt.data_driven.transform as tdt
        per = case['per']
        quad = [(sa, sb) for sa in (-1, 1) for sb in (-1, 1)]
        cols = []
        for j in range(m):
            sa, sb = quad[(j // 1) % 4] if j < 4 * per else quad[0]
            cols.append([sa * rng.uniform(0.3, 1.2), sb * rng.uniform(0.3, 1.2), case['ratio'] if (sa, sb) == (1, 1) else 1.0])
        x = np.array(cols).T
    x0 = x.copy()
    basis = [[reps(kk % d)[(s + j) % NREP] for j in range(n)] for kk, (s, n) in enumerate(case['ws'])]
    if case.get('near'):
        basis = [[tdt.IndicatorFunction(0, -10.0, 0.0), tdt.IndicatorFunction(0, 0.0, 10.0)],
                 [tdt.IndicatorFunction(1, -10.0, 0.0), tdt.IndicatorFunction(1, 0.0, 10.0)], [tdt.Identity(2)]]
    nmode = [len(b) for b in basis]
    P = psi_oracle(x, basis).reshape(-1, m)
    iset = case['iset']
    xi = [np.array(a) for a, b in iset]; yi = [np.array(b) for a, b in iset]
    irep = case.get('irep')
    if irep == 'list':
        xi = [list(a) for a, b in iset]; yi = [list(b) for a, b in iset]
    elif irep == 'int32':
        xi = [a.astype(np.int32) for a in xi]; yi = [b.astype(np.int32) for b in yi]
    elif irep == 'mask':                 # the windows are ascending, so a boolean mask selects the same snapshots in the same order
        def mask(a):
            mk = np.zeros(m, dtype=bool); mk[np.asarray(a)] = True
            return mk
        xi = [mask(a) for a in xi]; yi = [mask(b) for b in yi]
    r.nontrivial = True
    var = case['var']
    key = 'amuset_' + var

    def call(xa, ya):
        with quiet():
            if var == 'hosvd':
                mr = np.inf if case['mr'] == 'inf' else case['mr']
                if case.get('mrt'):
                    mr = {'np64': np.int64, 'np32': np.int32}[case['mrt']](mr)
                return tedmd.amuset_hosvd(x, xa, ya, basis, threshold=case['thr'], max_rank=mr, ef_tf=bool(case['fl'][0]), st_tf=bool(case['fl'][1]), **PROG)
            return tedmd.amuset_hocur(x, xa, ya, basis, max_rank=HOC['ranks'], multiplier=3, **PROG)

    HOC = {'ranks': 1000}
    PROG = {'progress': True} if case.get('progress') else {}
    if var == 'hocur' and len(iset) == 1:
        HOC['ranks'] = [1] + [1000] * len(basis) + [1]          # per-bond list (an input: must come back unchanged)
    ranks_given = list(HOC['ranks']) if isinstance(HOC['ranks'], list) else HOC['ranks']
    batched = len(iset) > 1
    # cross approximation of integer data with entries up to ~50 (Gaussians down to 1e-300 next to order-one values): one digit more
    ctol = 1e-6 if (var == 'hocur' and case.get('dt') == 'int') else 1e-7
    with r.op(key + ':call'):
        out = call(xi if batched else xi[0], yi if batched else yi[0])
        ev, et = out[0], out[1]
        evl = list(ev) if batched else [ev]
        etl = list(et) if batched else [et]
        if not r.true(key + ':result-count', len(evl) == len(iset) and len(etl) == len(iset)):
            return r
        # every returned tensor train must be consistent, and all returned objects distinct
        objs = list(etl)
        if var == 'hosvd' and case['fl'][1]:
            objs.append(out[-1])
        for o in objs:
            mp = meta_problem(o)
            r.true(key + ':returned-tt-consistent', mp is None, mp)
        r.true(key + ':returned-objects-distinct', len({id(o) for o in objs}) == len(objs), 'returned tensor trains are the same Python object')
        if any(meta_problem(o) is not None for o in etl):
            return r
        if var == 'hosvd' and case['mr'] != 'inf':
            for o in etl:
                r.true(key + ':rank-cap', all(rr <= case['mr'] for rr in o.ranks[1:-1]), 'eigentensor ranks %s exceed max_rank %s (threshold %g)' % (o.ranks, case['mr'], case['thr']))
        exact = (var == 'hosvd' and case['thr'] in (1e-12, 0) and case['mr'] == 'inf') or var == 'hocur'
        for kpos in range(len(iset)):
            lam = np.asarray(evl[kpos]); T = etl[kpos]
            if not r.true(key + ':dims', list(T.row_dims[:-1]) == nmode and T.row_dims[-1] == len(lam), 'row dims %s, %d eigenvalues' % (T.row_dims, len(lam))):
                continue
            Xi = dn(T).reshape(-1, len(lam))
            # differential oracle: position k of the batch == single call with pair k
            if batched:
                o1 = call(xi[kpos], yi[kpos])
                ev1, et1 = np.asarray(o1[0]), o1[1]
                r.true(key + ':batch-equals-single:eigenvalues', ev1.shape == lam.shape and np.array_equal(ev1, lam), 'list position %d' % kpos)
                if meta_problem(et1) is None and ev1.shape == lam.shape:
                    r.close(key + ':batch-equals-single:eigentensors', Xi, dn(et1).reshape(-1, len(ev1)), 1e-10, 'list position %d' % kpos)
            if exact:
                Px, Py = P[:, np.array(iset[kpos][0])], P[:, np.array(iset[kpos][1])]
                sv = np.linalg.svd(Px, compute_uv=False); rel = sv / sv[0]
                if not case.get('near') and (np.any((rel > 1e-4) & (rel < 1e-2)) or np.any((rel > 1e-14) & (rel < 1e-9))):
                    r.skipped += 1
                    continue
                Kt = np.linalg.pinv(Px.T, rcond=1e-3) @ Py.T           # N x N
                w, _ = np.linalg.eig(Kt)
                k = len(lam)
                idx = np.argsort(-np.abs(w))[:k]                           # the k non-zero ones (rank of pinv part is k)
                wnz = w[idx]
                want = np.real(wnz[np.argsort(np.abs(wnz - 1))])
                r.true(key + ':eigenvalue-count', k == int(np.sum(rel > 1e-3)), '%d eigenvalues, rank at the 1e-3 cut %d' % (k, int(np.sum(rel > 1e-3))))
                if case.get('count_only'):
                    continue
                # the order by |lambda - 1| is well defined unless two eigenvalues that are not complex conjugates of each other
                # are (nearly) equidistant from 1; conjugate pairs tie but have the same real part
                dist = np.abs(wnz - 1)
                ambiguous = any(abs(dist[i_] - dist[j_]) < 1e-6 and abs(np.real(wnz[i_]) - np.real(wnz[j_])) > 1e-9
                                for i_ in range(k) for j_ in range(i_ + 1, k))
                if not ambiguous:
                    r.close(key + ':eigenvalues', lam, want, ctol * max(1.0, sv[0] / sv[k - 1]), 'list position %d' % kpos)
                    r.count('eigenvalue_sets_with_complex_pairs', int(np.max(np.abs(np.imag(wnz))) > 1e-9))
                else:
                    r.count('eigenvalue_order_ambiguous')
                for j in range(k):
                    # eigen-equation only where the dense counterpart is real
                    jj = int(np.argmin(np.abs(wnz - lam[j])))
                    if abs(np.imag(wnz[jj])) < 1e-10 and abs(np.real(wnz[jj]) - lam[j]) < 1e-6:
                        v = Xi[:, j]
                        res = np.linalg.norm(Kt @ v - lam[j] * v) / max(1e-300, np.linalg.norm(v))
                        r.true(key + ':eigen-equation', res <= ctol * max(1.0, sv[0] / sv[k - 1]), 'pair %d residual %.3e' % (j, res))
    r.true(key + ':data-unchanged', np.array_equal(x, x0))
    r.true(key + ':max_rank-argument-unchanged', HOC['ranks'] == ranks_given, 'max_rank list modified: %s -> %s' % (ranks_given, HOC['ranks']))
    return r
