"""C17 — tensor-based DMD (exact and standard) equals matrix DMD of the unfolded snapshots."""
import itertools
import numpy as np
from vt.core import R, rng_for, dn, dnb, snap, unchanged, meta_problem

ID = 'C17'
LEVEL = 'exploration'
RULE = ('complete enumeration of spatial dimension vector ({2,3}^1..3) x snapshot count 3..6 x data family (generic full rank '
        'with threshold 0 / 1e-10; low-rank linear dynamics x_{k+1}=A x_k with prescribed spectrum incl. a complex pair, rank 2 '
        'or 3, threshold 1e-10; snapshot pairs of rank-3 dynamics with an eigenvalue 2e-3, thresholds 1e-2 and 1e-10) x TT representation (maximal ranks via TT(array); over-parameterised via a sum with a zero '
        'tensor; uncompressed sum of two trains sharing their spatial cores) x (ortho_l, ortho_r) in the combinations valid for the representation x routine (exact, standard). Oracle: '
        'SVD-based matrix DMD with the same relative cut; eigenvalues as multisets, every mode up to a complex scalar. '
        'Non-trivial: more than one spatial mode or a truncated rank.')
ASSUMPTIONS = ['numpy SVD-based matrix DMD of the unfolded snapshot matrices is the reference', 'real snapshot data', 'thresholds in a spectral gap (D7); eigenvalues of the reduced matrix simple and non-zero (generic data)']
CHUNK = 16


def space(tier):
    return {'spatial dims': '{2,3}^d, d=1..3', 'snapshots': [3, 4, 5, 6], 'families': ['generic', 'lowrank2', 'lowrank3', 'snapshot pairs with an eigenvalue 2e-3'], 'threshold': [0, 1e-10, 1e-2],
            'representation': ['tt-svd', 'overparameterised (sum with zero)', 'uncompressed sum of two trains sharing spatial cores', 're-gauged then x.ortho() in place'], 'flags': ['(T,T)', '(F,T)', '(T,F)', '(F,F)']}


def cases(tier):
    q = tier == 'quick'
    # linear dynamics with a SLOWLY rotating mode pair 0.9 exp(+-i 6e-9) next to a real eigenvalue 0.6: the imaginary parts are tiny
    # in absolute terms but the pair is a genuine conjugate pair with two linearly independent modes
    for dims_ in ([4], [2, 3], [3, 3]):
        for m_ in (6, 8):
            yield {'slowrot': True, 'dims': dims_, 'm': m_, 'fam': 'slowrot', 'thr': 1e-10, 'rep': 'ttsvd', 'fl': 'TT'}
    for d in ((1, 2, 3) if q else (1, 2, 3, 4)):
        for dims in itertools.product([2, 3] if (q or d == 4) else [2, 3, 4], repeat=d):
            for m in ((3, 4, 5, 6) if q else (3, 4, 5, 6, 8, 10)):
                for fam, thr in (('generic', 0), ('generic', 1e-10), ('lowrank2', 1e-10), ('lowrank3', 1e-10), ('smalleig', 1e-2), ('smalleig', 1e-10),
                                 ('impulses', 0), ('impulses', 1e-10), ('nearsym', 0), ('nearsym', 1e-10), ('whitened', 0), ('whitened', 1e-10), ('tinyunits', 1e-10), ('intcore', 0), ('intcore', 1e-10), ('nearcut', 1e-3), ('nearcut', 1e-6), ('coarsecut', 0.1), ('rank1bond', 1e-10), ('rank1bond', 0)):
                    for rep in ('ttsvd', 'over', 'split', 'orthod'):
                        for fl in ('TT', 'FT', 'TF', 'FF'):
                            if rep in ('over', 'split', 'orthod') and fl != 'TT':
                                continue
                            if rep == 'split' and thr == 0:
                                continue
                            if fam == 'rank1bond' and (rep != 'ttsvd' or d < 2):
                                continue
                            if fam in ('nearcut', 'coarsecut') and rep != 'ttsvd':
                                continue      # the cut sits just below a singular value: only the representation whose spatial cores are orthonormal
                            if fam == 'tinyunits' and (rep != 'ttsvd' or d < 2 or fl != 'TT'):
                                continue
                            if fam == 'intcore' and (rep != 'ttsvd' or d != 1 or fl != 'TT'):
                                continue
                            if rep == 'orthod' and thr > 1e-6:
                                continue      # a coarse cut also acts on the spatial bonds, whose spectra depend on the gauge
                            yield {'dims': list(dims), 'm': m, 'fam': fam, 'thr': thr, 'rep': rep, 'fl': fl}


def make_data(rng, dims, m, fam, thr=0):
    N = int(np.prod(dims))
    if fam == 'impulses':
        # localised impulses at distinct sites with site-wise decay: the reduced matrix is exactly diagonal, its eigenvectors
        # are unit vectors (exact zeros in every first component but one)
        k = min(N, m)
        X = np.zeros((N, m)); Y = np.zeros((N, m))
        lam = 0.9 - 0.13 * np.arange(k)
        for j in range(k):
            X[(3 * j + 1) % N if np.gcd(3, N) == 1 else j, j] = 1.0 + 0.5 * j
        for j in range(k, m):
            X[:, j] = X[:, j - k] * 0.5
        Y = X * 0.0
        for j in range(m):
            i_ = int(np.argmax(np.abs(X[:, j])))
            Y[i_, j] = X[i_, j] * lam[j % k]
        return X, Y
    if fam == 'nearsym':
        # weakly non-reversible linear dynamics A = S + 1e-6 K (S symmetric with the spectrum 0.9 .. 0.2, K skew of norm one) on
        # well-conditioned snapshots (singular values 3 .. 1): the reduced matrix is symmetric up to 1e-6 but not symmetric
        k = min(N, m)
        Q = np.linalg.qr(rng.standard_normal((N, N)))[0]
        S = (Q * np.linspace(0.9, 0.2, N)) @ Q.T
        K = rng.standard_normal((N, N)); K = K - K.T; K = K / max(1e-300, np.linalg.norm(K, 2))
        U = np.linalg.qr(rng.standard_normal((N, k)))[0]; V = np.linalg.qr(rng.standard_normal((m, k)))[0]
        X = (U * np.linspace(3.0, 1.0, k)) @ V.T
        return X, (S + 1e-6 * K) @ X
    if fam == 'whitened':
        # whitened snapshots: every singular value is 1 up to a few 1e-6, so the snapshot core of TT(X) has orthogonal rows of norm
        # 1 + O(1e-6) -- nearly, but not, right-orthonormal
        k = min(N, m)
        U = np.linalg.qr(rng.standard_normal((N, k)))[0]; V = np.linalg.qr(rng.standard_normal((m, k)))[0]
        X = (U * (1.0 + 5e-6 * np.linspace(-1, 1, k))) @ V.T
        A = rng.standard_normal((N, N)) / np.sqrt(N)
        return X, A @ X
    if fam == 'tinyunits':
        # data in tiny units (x 1e-24) whose first spatial unfolding has the singular values (1, 5e-3): x[i, j.., t] = a0[i] z0[j.., t] +
        # 5e-3 a1[i] z1[j.., t]; the represented snapshots are handed over right-orthonormalised (the scale sits in the first core)
        n1 = dims[0]; rest = N // n1
        Qa = np.linalg.qr(rng.standard_normal((n1, 2)))[0]
        Z0 = rng.standard_normal((rest, m + 1)); Z1 = rng.standard_normal((rest, m + 1))
        Z = np.kron(Qa[:, :1], Z0) + 5e-3 * np.kron(Qa[:, 1:2], Z1)
        return 1e-24 * Z[:, :-1], 1e-24 * Z[:, 1:]
    if fam == 'coarsecut':
        # singular values 1, .6, .3, .05, .03 and a relative cut of 0.1 that discards two directions which are far from negligible
        k = min(N, m, 5)
        U = np.linalg.qr(rng.standard_normal((N, k)))[0]; V = np.linalg.qr(rng.standard_normal((m, k)))[0]
        sv = np.array([1.0, 0.6, 0.3, 0.05, 0.03][:k])
        X = (U * sv) @ V.T
        A = rng.standard_normal((N, N)) / np.sqrt(N)
        return X, A @ X
    if fam == 'rank1bond':
        # x[i, j.., t] = a[i] * z[j.., t]: a bond of rank one between the first two spatial cores, first factor of norm 3
        n1 = dims[0]; rest = N // n1
        a = rng.standard_normal(n1); a = 3.0 * a / np.linalg.norm(a)
        Z = rng.standard_normal((rest, m + 1))
        Zx, Zy = Z[:, :-1], Z[:, 1:]
        return np.kron(a[:, None], Zx), np.kron(a[:, None], Zy)
    if fam == 'nearcut':
        # singular values 1, .95, .9, .85 and one only 1.5 times above the relative cut
        k = min(N, m, 5)
        U = np.linalg.qr(rng.standard_normal((N, k)))[0]; V = np.linalg.qr(rng.standard_normal((m, k)))[0]
        sv = np.array([1.0, 0.95, 0.9, 0.85, 1.5 * thr][:k]); sv[-1] = 1.5 * thr
        X = (U * sv) @ V.T
        A = rng.standard_normal((N, N)) / np.sqrt(N)
        return X, A @ X
    if fam == 'intcore':
        Z = rng.integers(-4, 5, (N, m + 1)).astype(float)          # integer-valued count data
    elif fam == 'generic':
        Z = rng.standard_normal((N, m + 1))
    elif fam == 'smalleig':
        # snapshot PAIRS (x_j, A x_j) of linear dynamics of rank 3 with the real spectrum {0.9, 0.5, 2e-3}: one eigenvalue far
        # below the relative cut used for the singular values, which themselves are all of order one
        r = min(3, N, m)
        modes = np.linalg.qr(rng.standard_normal((N, r)))[0]
        B = np.diag([0.9, 0.5, 2e-3][:r])
        T_ = rng.standard_normal((r, r)) + 2 * np.eye(r)
        B = T_ @ B @ np.linalg.inv(T_)
        C = np.linalg.qr(rng.standard_normal((m, r)))[0].T * np.array([1.0, 0.8, 0.6][:r])[:, None]
        return modes @ C, modes @ B @ C
    else:
        r = 2 if fam == 'lowrank2' else 3
        r = min(r, N)
        modes = rng.standard_normal((N, r))
        if r == 2:
            lam = np.array([0.9 * np.exp(0.5j), 0.9 * np.exp(-0.5j)])
            V = np.array([[1, 1], [1j, -1j]]) / np.sqrt(2)
        else:
            lam = np.array([0.9 * np.exp(0.5j), 0.9 * np.exp(-0.5j), 0.6])
            V = np.zeros((3, 3), dtype=complex); V[:2, :2] = np.array([[1, 1], [1j, -1j]]) / np.sqrt(2); V[2, 2] = 1
        B = np.real(V @ np.diag(lam) @ np.linalg.inv(V))    # real r x r matrix with the prescribed spectrum
        c = rng.standard_normal(r)
        cols = []
        for _ in range(m + 1):
            cols.append(modes @ c); c = B @ c
        Z = np.array(cols).T
    return Z[:, :-1], Z[:, 1:]


def run_slowrot(case, seed):
    from scikit_tt.tensor_train import TT
    from scikit_tt.data_driven import tdmd
    r = R(case)
    rng = rng_for(case, seed)
    dims, m = case['dims'], case['m']
    d = len(dims); N = int(np.prod(dims))
    th = 6e-9
    lam = np.array([0.9 * np.exp(1j * th), 0.9 * np.exp(-1j * th), 0.6])
    V = np.zeros((3, 3), dtype=complex); V[:2, :2] = np.array([[1, 1], [1j, -1j]]) / np.sqrt(2); V[2, 2] = 1
    B = np.real(V @ np.diag(lam) @ np.linalg.inv(V))
    modes = np.linalg.qr(rng.standard_normal((N, 3)))[0]
    C = rng.standard_normal((3, m))
    X = modes @ C; Y = modes @ B @ C
    shape = dims + [m] + [1] * (d + 1)
    x = TT(X.reshape(shape)); y = TT(Y.reshape(shape))
    r.nontrivial = True
    for name, f in (('tdmd_exact', tdmd.tdmd_exact), ('tdmd_standard', tdmd.tdmd_standard)):
        with r.op(name + ':slow-rotation:call'):
            ev, md = f(x, y, threshold=1e-10)
            ev = np.asarray(ev)
            if not r.true(name + ':slow-rotation:eigenvalue-count', ev.shape == (3,), '%s' % (ev.shape,)):
                continue
            pair = [i for i in range(3) if abs(ev[i] - 0.9) < 1e-3]
            if not r.true(name + ':slow-rotation:pair-found', len(pair) == 2, 'eigenvalues %s' % ev):
                continue
            im = np.sort(np.imag(ev[pair]))
            r.true(name + ':slow-rotation:imaginary-parts', np.allclose(im, [-0.9 * np.sin(th), 0.9 * np.sin(th)], rtol=0, atol=5e-10),
                   'imaginary parts %s, expected +-%.3e' % (im, 0.9 * np.sin(th)))
            if meta_problem(md) is None:
                Mm = dn(md).reshape(N, 3)[:, pair]
                Mm = Mm / np.linalg.norm(Mm, axis=0)
                sv = np.linalg.svd(Mm, compute_uv=False)
                r.true(name + ':slow-rotation:independent-modes', sv[1] > 1e-2, 'the two modes of the pair are (nearly) parallel: singular values %s' % sv)
    return r


def run_case(case, seed):
    if case.get('slowrot'):
        return run_slowrot(case, seed)
    from scikit_tt.tensor_train import TT
    import scikit_tt.tensor_train as tt
    from scikit_tt.data_driven import tdmd
    r = R(case)
    rng = rng_for(case, seed)
    dims, m, thr = case['dims'], case['m'], case['thr']
    d = len(dims); N = int(np.prod(dims))
    X, Y = make_data(rng, dims, m, case['fam'], thr)
    shape = dims + [m] + [1] * (d + 1)
    x = TT(X.reshape(shape)); y = TT(Y.reshape(shape))
    if case['fam'] == 'rank1bond':
        # keep the factorised form (first core = a, not normalised): build the rest by TT-SVD and prepend the rank-one core
        n1 = dims[0]
        def fact(Mx):
            # Mx = kron(a_true, Z): recover a_true up to scale from the first column block, keep its norm 3
            blk = Mx.reshape(n1, -1, Mx.shape[1])
            j0 = int(np.argmax(np.abs(blk[:, 0, 0])))
            avec = blk[:, 0, 0] / blk[j0, 0, 0]
            Zm = blk[j0] / 1.0
            scale = 3.0 / np.linalg.norm(avec)
            avec = avec * scale; Zm = Zm / scale
            rest = TT(Zm.reshape(dims[1:] + [Mx.shape[1]] + [1] * d))
            return TT([avec.reshape(1, n1, 1, 1)] + [c_.copy() for c_ in rest.cores])
        x = fact(X); y = fact(Y)
    if case['fam'] == 'tinyunits':
        x.ortho_right(); y.ortho_right()
    if case['fam'] == 'intcore':
        # y handed over as an uncompressed train whose snapshot core holds the integer counts themselves (integer dtype)
        y = TT([np.eye(N).reshape(1, N, 1, N), np.rint(Y).astype(np.int64).reshape(N, m, 1, 1)])
    if case['rep'] == 'over':
        x = x + tt.zeros(dims + [m], [1] * (d + 1), 1); y = y + tt.zeros(dims + [m], [1] * (d + 1), 1)
    if case['rep'] == 'split':
        # uncompressed sum of two trains that share their spatial cores: the last rank is twice the rank of the snapshot
        # matrix while the last core has full row rank (when it fits)
        def split(t):
            sa = rng.standard_normal(t.cores[-1].shape)
            a = TT([c_.copy() for c_ in t.cores[:-1]] + [sa]); b = TT([c_.copy() for c_ in t.cores[:-1]] + [t.cores[-1] - sa])
            return a + b
        x = split(x); y = split(y)
    if case['rep'] == 'orthod':
        # call history on the data objects: re-gauged from outside, then left- and right-orthonormalised in place (x.ortho()),
        # before the routine is called with its default flags
        def regauge(t):
            cs = [c_.copy() for c_ in t.cores]
            for i in range(len(cs) - 1):
                k_ = cs[i].shape[3]
                G = rng.standard_normal((k_, k_)) + 3 * np.eye(k_)
                cs[i] = np.tensordot(cs[i], G, axes=(3, 0)); cs[i + 1] = np.tensordot(np.linalg.inv(G), cs[i + 1], axes=(1, 0))
            t2 = TT(cs); t2.ortho(); return t2
        x = regauge(x); y = regauge(y)
    ol, orr = case['fl'][0] == 'T', case['fl'][1] == 'T'
    if not ol:
        x.ortho_left(end_index=x.order - 3)            # TT(array) already is left-orthonormal; harmless and explicit
    if not orr:
        x.ortho_right(start_index=x.order - 1, end_index=x.order - 1)   # non-orthonormal part moves into the centre core
    sx, sy = snap(x), snap(y)
    # reference: SVD-based DMD with the same relative cut
    U, s, Vt = np.linalg.svd(X, full_matrices=False)
    rel = s / s[0]
    cut = thr if thr else 1e-13
    if case['fam'] == 'nearcut':
        nogap = False
    elif case['fam'] == 'coarsecut':
        nogap = bool(np.any((rel > cut / 1.8) & (rel < cut * 1.8)))
    elif thr >= 1e-6:
        nogap = np.any((rel > cut / 5) & (rel < cut * 5))          # a coarse cut: singular values within a factor 5 of it
    else:
        nogap = np.any((rel > cut * 1e-3) & (rel < max(cut * 1e3, 1e-7))) or (thr == 0 and rel.min() < 1e-7)
    if nogap:
        r.skipped += 1
        r.outcome = 'skipped-no-spectral-gap'
        return r
    k = int(np.sum(rel > cut))
    U, s, Vt = U[:, :k], s[:k], Vt[:k]
    At = U.T @ Y @ Vt.T @ np.diag(1 / s)
    lam, W = np.linalg.eig(At)
    if np.min(np.abs(lam)) < 1e-6 or (k > 1 and np.min(np.abs(lam[:, None] - lam[None, :]) + 10 * np.eye(k)) < 1e-4):
        r.skipped += 1
        r.outcome = 'skipped-degenerate-spectrum'
        return r
    exact_modes = Y @ Vt.T @ np.diag(1 / s) @ W @ np.diag(1 / lam)
    proj_modes = U @ W
    r.nontrivial = d > 1 or k < min(N, m)
    cond = s[0] / s[-1]
    for name, f, ref in (('tdmd_exact', tdmd.tdmd_exact, exact_modes), ('tdmd_standard', tdmd.tdmd_standard, proj_modes)):
        with r.op(name + ':call'):
            ev, modes = f(x, y, threshold=thr, ortho_l=ol, ortho_r=orr)
            ev = np.asarray(ev)
            if not r.true(name + ':eigenvalue-count', ev.shape == (k,), 'got %s expected %d' % (ev.shape, k)):
                continue
            # multiset comparison by greedy nearest matching
            left = list(range(k)); match = []
            for e in ev:
                j = min(left, key=lambda jj: abs(lam[jj] - e)); left.remove(j); match.append(j)
            r.true(name + ':eigenvalues', max(abs(ev[i] - lam[match[i]]) for i in range(k)) <= 1e-8 * cond * max(1.0, np.abs(lam).max()),
                   'eigenvalues %s vs matrix DMD %s' % (np.round(ev, 6), np.round(lam, 6)))
            mp = meta_problem(modes)
            if not r.true(name + ':modes-consistent-tt', mp is None, mp):
                continue
            if not r.true(name + ':modes-dims', list(modes.row_dims) == dims + [k], 'row dims %s' % modes.row_dims):
                continue
            Mm = dn(modes).reshape(N, k)
            worst = 0.0
            for i in range(k):
                a, b = Mm[:, i], ref[:, match[i]]
                c = abs(np.vdot(a, b)) / max(1e-300, np.linalg.norm(a) * np.linalg.norm(b))
                worst = max(worst, 1 - c)
            r.true(name + ':modes', worst <= 1e-7 * cond, 'worst 1-|cos| between returned and reference mode: %.3e' % worst)
        r.true(name + ':inputs-unchanged', unchanged(x, sx) and unchanged(y, sy), 'x or y modified')
    # call history on ONE snapshot object: after the calls above the caller refills x in place with another data set of the same
    # sizes (a sliding window) and calls again with the same parameters: the result is that of a fresh object holding the new data
    if case['fam'] == 'generic' and case['rep'] == 'ttsvd' and case['fl'] == 'TT':
        X2, Y2 = make_data(rng, dims, m, 'generic', thr)
        x2 = TT(X2.reshape(shape)); y2 = TT(Y2.reshape(shape))
        x.cores = [c_.copy() for c_ in x2.cores]; x.ranks = list(x2.ranks)
        for name, f in (('tdmd_exact', tdmd.tdmd_exact), ('tdmd_standard', tdmd.tdmd_standard)):
            with r.op(name + ':refilled-object:call'):
                ev_a, md_a = f(x, y2, threshold=thr)
                ev_b, md_b = f(x2, y2, threshold=thr)
                r.true(name + ':refilled-object:eigenvalues', np.asarray(ev_a).shape == np.asarray(ev_b).shape and np.allclose(ev_a, ev_b, rtol=1e-10, atol=1e-12),
                       'same data in a refilled object and in a fresh object: %s vs %s' % (np.round(ev_a, 6), np.round(ev_b, 6)))
                if meta_problem(md_a) is None and meta_problem(md_b) is None and list(md_a.row_dims) == list(md_b.row_dims):
                    r.close(name + ':refilled-object:modes', dn(md_a), dn(md_b), 1e-9)
    return r
