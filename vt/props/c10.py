"""C10 — splitting integrators equal the composed local propagators, at the right order."""
import itertools
import numpy as np
import scipy.linalg as sl
from vt.core import R, rng_for, rand_cores, tt_from, vec, max_ranks, snap, unchanged, meta_problem

ID = 'C10'
LEVEL = 'exploration'
RULE = ('complete enumeration of chain length x local dimensions (homogeneous arrays; inhomogeneous lists with equal and '
        'site-dependent dims) x interaction rank (2-D rank-1 shorthand, 3-D rank 1, rank 2) x family (real, complex, '
        'skew-Hermitian, defective, real chain with a complex last-site term) x state dtype (that of the generator, the other one) x structured site dependence (two of S/L/M uniform with one array object in every slot) x initial rank (1, 2, maximal) x step size x step count x normalize x scheme (Lie, Lie with '
        'user-supplied K, Strang, Yoshida, Kahan-Li); every state compared with the dense product of even/odd-bond matrix '
        'exponentials with the scheme coefficients; observed order from (h, h/2) against expm(T*H); norm conservation on the '
        'skew-Hermitian family; unit norm and rank cap with an active max_rank in {1,2}. Non-trivial: chain length >= 3 (both parities occur), rank-2 interaction, complex data or '
        'site-dependent dimensions.')
ASSUMPTIONS = ['scipy.linalg.expm on Kronecker-embedded dense generators is the reference', 'threshold=0 and max_rank=50: no truncation is active for the explored sizes']
CHUNK = 8
YG1 = 1.0 / (2.0 - 2.0 ** (1.0 / 3.0)); YG2 = -2.0 ** (1.0 / 3.0) / (2.0 - 2.0 ** (1.0 / 3.0))
KL = [0.13020248308889008087881763, 0.56116298177510838456196441, -0.38947496264484728640807860, 0.15884190655515560089621075,
      -0.39590389413323757733623154, 0.18453964097831570709183254, 0.25837438768632204729397911, 0.29501172360931029887096624,
      -0.60550853383003451169892108]
SCHEMES = ['lie', 'lieK', 'strang', 'yoshida', 'kahan_li']
ORDER = {'lie': 1, 'lieK': 1, 'strang': 2, 'yoshida': 4, 'kahan_li': 6}


def space(tier):
    q = tier == 'quick'
    return {'chain length': [2, 3, 4] if q else [2, 3, 4, 5, 6], 'forms': ['hom n=2', 'hom n=3', 'inhom equal dims', 'inhom site-dependent dims'],
            'interaction': ['2d', 'r1', 'r2'], 'family': ['real', 'complex', 'skew', 'defective (non-diagonalisable generators)', 'real with a complex last-site term'], 'state dtype': ['as the generator', 'the other one'], 'structured site dependence': ['none', 'only M varies', 'only L varies', 'only S varies'], 'initial rank': [1, 2, 'max'], 'h': [0.1, 0.5],
            'steps': [1, 2], 'normalize': [0, 2], 'schemes': SCHEMES}


def cases(tier):
    q = tier == 'quick'
    for d in ([2, 3, 4] if q else [2, 3, 4, 5, 6]):
        forms = [('hom', [2] * d), ('hom', [3] * d), ('inhom', [2] * d), ('inhom', ([2, 3, 2, 3, 2, 2])[:d]), ('inhom', ([3, 2, 2, 3, 2, 2])[:d])]
        if d == 5:
            forms = [f for f in forms if max(f[1]) == 2 or f[0] == 'inhom'][:3]
        if d == 6:
            forms = [('hom', [2] * d), ('inhom', [2] * d)]
        for form, dims in forms:
            for inter in ('2d', 'r1', 'r2'):
                for fam in ('real', 'complex', 'skew', 'defective', 'diag', 'cplxcoupling'):
                    for r0 in (1, 2, 'max'):
                        for h in (0.1, 0.5):
                            for nz in (0, 2):
                                yield {'d': d, 'form': form, 'dims': list(dims), 'inter': inter, 'fam': fam, 'r0': r0, 'h': h, 'nz': nz}
                        # normalize=1 (Manhattan norm, documented for non-negative entries): rate-matrix generators with non-negative
                        # off-diagonal entries and a non-negative state
                        if fam == 'defective':
                            yield {'d': d, 'form': form, 'dims': list(dims), 'inter': inter, 'fam': fam, 'r0': r0, 'h': 0.1, 'nz': 1}
                        # initial state of the OTHER dtype (real state under a complex generator and vice versa)
                        if fam != 'defective':
                            yield {'d': d, 'form': form, 'dims': list(dims), 'inter': inter, 'fam': fam, 'r0': r0, 'h': 0.1, 'nz': 0, 'xdt': 'other'}
                if form == 'inhom':
                    # real chain with a complex single-site term on the last site only; real and complex initial states
                    for r0 in (1, 'max'):
                        for xdt in ('same', 'other'):
                            yield {'d': d, 'form': form, 'dims': list(dims), 'inter': inter, 'fam': 'lastc', 'r0': r0, 'h': 0.1, 'nz': 0, 'xdt': xdt}
                    if inter == 'r2' and d >= 3:
                        for fam in ('real', 'complex'):
                            for r0 in (1, 'max'):
                                yield {'d': d, 'form': form, 'dims': list(dims), 'inter': inter, 'fam': fam, 'r0': r0, 'h': 0.1, 'nz': 0, 'struct': 'mixedrank'}
                    if len(set(dims)) == 1:
                        # structured site dependence: two of the three component lists uniform (the same array object in every
                        # slot), the third one site dependent
                        for struct in ('varyM', 'varyL', 'varyS'):
                            for fam in ('real', 'complex'):
                                for r0 in (1, 'max'):
                                    yield {'d': d, 'form': form, 'dims': list(dims), 'inter': inter, 'fam': fam, 'r0': r0, 'h': 0.1, 'nz': 0, 'struct': struct}


def gen_components(rng, dims, form, inter, fam, struct=None):
    d = len(dims)
    lastc = fam == 'lastc'
    if lastc:
        fam = 'real'

    def rnd(shape, herm=False):
        a = rng.standard_normal(shape)
        if fam in ('complex', 'skew'):
            a = a + 1j * rng.standard_normal(shape)
        return a
    r = 2 if inter == 'r2' else 1

    def herm(n):
        a = rnd((n, n)); return (a + a.conj().T) / 2
    S, L, I, M = [], [], [], []
    for i in range(d):
        n = dims[i]
        if fam == 'defective':
            # pure-birth-like rate matrices with equal rates and nilpotent couplings: the two-site generators are
            # triangular with repeated eigenvalues, i.e. not diagonalisable
            S.append(-0.5 * np.eye(n) + np.diag(0.5 * np.ones(n - 1), -1))
            Li = np.stack([np.diag(np.ones(n - 1), -1) for _ in range(r)], axis=2)
            Mi = np.stack([np.diag(np.ones(n - 1), 1 if kk % 2 else -1) + (0.0 if kk % 2 else 0.0) for kk in range(r)], axis=0)
            L.append(0.7 * Li); M.append(Mi); I.append(np.eye(n))
            continue
        if fam == 'diag':
            # every component diagonal (classical ZZ-type couplings): the bond propagators are diagonal matrices that do NOT factorise
            S.append(np.diag(rng.standard_normal(n)))
            Li = np.stack([np.diag(rng.standard_normal(n)) for _ in range(r)], axis=2)
            Mi = np.stack([np.diag(rng.standard_normal(n)) for _ in range(r)], axis=0)
            L.append(0.7 * Li); M.append(Mi); I.append(np.eye(n))
            continue
        if fam == 'cplxcoupling':
            # real single-site terms and identities, complex couplings (hopping with phases)
            S.append(rng.standard_normal((n, n)))
            Li = rng.standard_normal((n, n, r)) + 1j * rng.standard_normal((n, n, r))
            Mi = rng.standard_normal((r, n, n)) + 1j * rng.standard_normal((r, n, n))
            L.append(0.7 * Li); M.append(Mi); I.append(np.eye(n))
            continue
        if fam == 'skew':
            S.append(-1j * herm(n))
            Li = np.stack([-1j * herm(n) for _ in range(r)], axis=2)
            Mi = np.stack([herm(n) for _ in range(r)], axis=0)
        else:
            S.append(rnd((n, n)))
            Li = rnd((n, n, r)); Mi = rnd((r, n, n))
        L.append(0.7 * Li); M.append(Mi); I.append(np.eye(n))
    if lastc:
        S[-1] = S[-1] + 1j * rng.standard_normal(S[-1].shape)
    if struct == 'mixedrank':
        # site-dependent number of interaction terms: 1 on even bonds (the first one included), 2 on odd bonds
        for i in range(d - 1):
            ri = 1 if i % 2 == 0 else 2
            L[i] = L[i][:, :, :ri]; M[i + 1] = M[i + 1][:ri]
        struct = None
    if struct is not None:
        if struct != 'varyS':
            S = [S[0]] * d
        if struct != 'varyL':
            L = [L[0]] * d
        if struct != 'varyM':
            M = [M[0]] * d
    if form == 'hom':
        S, L, I, M = S[0], L[0], I[0], M[0]
        if inter == '2d':
            L, M = L[:, :, 0], M[0]
    else:
        if inter == '2d':
            L = [x[:, :, 0] for x in L]; M = [x[0] for x in M]
    return S, L, I, M


def dense_generators(S, L, I, M, dims):
    d = len(dims); N = int(np.prod(dims))
    hom = not isinstance(S, list)

    def get(X, i):
        return X if hom else X[i]

    def embed(op, i, width):
        left = int(np.prod(dims[:i])); right = int(np.prod(dims[i + width:]))
        return np.kron(np.kron(np.eye(left), op), np.eye(right))
    He = np.zeros((N, N), dtype=complex); Ho = np.zeros((N, N), dtype=complex)
    Ks = []
    for i in range(d - 1):
        Li, Mi = np.asarray(get(L, i)), np.asarray(get(M, i + 1))
        if Li.ndim == 2:
            Li = Li[:, :, None]; Mi = Mi[None, :, :]
        K = np.kron(get(S, i), np.eye(dims[i + 1])) + sum(np.kron(Li[:, :, k], Mi[k]) for k in range(Li.shape[2]))
        Ks.append(K)
        if i % 2 == 0:
            He += embed(K, i, 2)
        else:
            Ho += embed(K, i, 2)
    Kl = np.asarray(get(S, d - 1))
    Ks.append(Kl)
    if (d - 1) % 2 == 0:
        He += embed(Kl, d - 1, 1)
    else:
        Ho += embed(Kl, d - 1, 1)
    return He, Ho, Ks


def strang(He, Ho, h):
    E = sl.expm(0.5 * h * He)
    return E @ sl.expm(h * Ho) @ E


def step_matrix(scheme, He, Ho, h):
    if scheme in ('lie', 'lieK'):
        return sl.expm(h * Ho) @ sl.expm(h * He)
    if scheme == 'strang':
        return strang(He, Ho, h)
    if scheme == 'yoshida':
        return strang(He, Ho, YG1 * h) @ strang(He, Ho, YG2 * h) @ strang(He, Ho, YG1 * h)
    U = np.eye(He.shape[0], dtype=complex)
    for a in KL + KL[-2::-1]:
        U = strang(He, Ho, a * h) @ U
    return U


def copy_comp(X):
    if not isinstance(X, list):
        return np.array(X)
    memo = {}                      # one array object used in several slots stays one object
    return [memo.setdefault(id(x), np.array(x)) for x in X]


def run_case(case, seed):
    from scikit_tt.solvers import ode
    r = R(case)
    rng = rng_for(case, seed)
    d, dims, fam, h, nz = case['d'], case['dims'], case['fam'], case['h'], case['nz']
    S, L, I, M = gen_components(rng, dims, case['form'], case['inter'], fam, case.get('struct'))
    He, Ho, Ks = dense_generators(S, L, I, M, dims)
    sc = max(np.linalg.norm(He, 2), np.linalg.norm(Ho, 2))
    # scale the components so that the generator has norm ~1 (keeps h*H moderate): S, L scaled; M, I untouched
    if isinstance(S, list):
        S = copy_comp(S); L = copy_comp(L)
        for X in (S, L):
            done = set()
            for x in X:
                if id(x) not in done:
                    x /= sc; done.add(id(x))
    else:
        S = S / sc; L = L / sc
    He, Ho, Ks = dense_generators(S, L, I, M, dims)
    H = He + Ho
    rk = max_ranks(dims) if case['r0'] == 'max' else [1] + [min(case['r0'], m) for m in max_ranks(dims)[1:-1]] + [1]
    xc = fam in ('complex', 'skew', 'cplxcoupling')
    if case.get('xdt') == 'other':
        xc = not xc
    x0t = tt_from(rand_cores(rng, dims, [1] * d, rk, xc, 'nonneg' if nz == 1 else 'gauss'))
    x0t = (1.0 / x0t.norm()) * x0t
    x0 = vec(x0t)
    sX = snap(x0t)
    r.nontrivial = d >= 3 or case['inter'] == 'r2' or fam != 'real' or len(set(dims)) > 1
    fns = {'lie': ode.lie_splitting, 'lieK': ode.lie_splitting, 'strang': ode.strang_splitting, 'yoshida': ode.yoshida_splitting,
           'kahan_li': ode.kahan_li_splitting}
    comp0 = [copy_comp(X) for X in (S, L, I, M)]

    def call(scheme, hh, nsteps, norm, max_rank=50):
        Sx, Lx, Ix, Mx = [copy_comp(X) for X in comp0]
        kw = dict(threshold=0, max_rank=max_rank, normalize=norm)
        if scheme == 'lieK':
            kw['K'] = [sl.expm(hh * K) for K in Ks]
        out = fns[scheme](Sx, Lx, Ix, Mx, x0t, hh, nsteps, **kw)
        # caller's components keep their values (2-D entries may have been given an extra unit axis)
        for X, X0 in zip((Sx, Lx, Ix, Mx), comp0):
            xs = X if isinstance(X, list) else [X]; x0s = X0 if isinstance(X0, list) else [X0]
            r.true('splitting:components-unchanged', all(np.array_equal(np.squeeze(a), np.squeeze(b)) or a.size == b.size and np.array_equal(a.reshape(b.shape), b)
                                                         for a, b in zip(xs, x0s)), 'S/L/I/M values changed')
        return out

    for scheme in SCHEMES:
        key = scheme
        for nsteps in (1, 2):
            U = step_matrix(scheme, He, Ho, h)
            want = [x0]
            for _ in range(nsteps):
                y = U @ want[-1]
                if nz == 2:
                    y = y / np.linalg.norm(y)
                if nz == 1:
                    y = y / np.sum(y)
                want.append(y)
            if nz == 1 and any(np.min(np.real(w_)) < -1e-13 for w_ in want):
                r.count('manhattan_skipped_negative_entries')      # substeps backwards in time left the non-negative cone: outside the documented domain
                continue
            with r.op(key + ':call'):
                sol = call(scheme, h, nsteps, nz)
                if not r.true(key + ':length', isinstance(sol, list) and len(sol) == nsteps + 1, 'len %s' % (len(sol) if isinstance(sol, list) else type(sol))):
                    continue
                r.true(key + ':initial-identity', sol[0] is x0t)
                for k in range(nsteps + 1):
                    mp = meta_problem(sol[k])
                    if not r.true(key + ':meta', mp is None, mp) or not r.true(key + ':dims', list(sol[k].row_dims) == list(dims)):
                        break
                    r.close(key + ':state', vec(sol[k]), want[k], 1e-9, 'state %d, %d steps, h=%g' % (k, nsteps, h))
                    if nz == 2 and k > 0:
                        r.true(key + ':unit-norm', abs(np.linalg.norm(vec(sol[k])) - 1) <= 1e-9)
                    if fam == 'skew' and nz == 0:
                        r.true(key + ':norm-conserved', abs(np.linalg.norm(vec(sol[k])) - 1) <= 1e-9, 'state %d norm %r' % (k, np.linalg.norm(vec(sol[k]))))
        # normalisation with ACTIVE truncation: states must still have unit norm and respect the rank cap
        if nz == 2 and h == 0.5:
            for mr in (1, 2):
                with r.op(key + ':truncated:call'):
                    sol = call(scheme, h, 2, 2, max_rank=mr)
                    for k in range(1, len(sol)):
                        if meta_problem(sol[k]) is None:
                            r.true(key + ':truncated:unit-norm', abs(np.linalg.norm(vec(sol[k])) - 1) <= 1e-9,
                                   'max_rank=%d state %d norm %r' % (mr, k, np.linalg.norm(vec(sol[k]))))
                            r.true(key + ':truncated:rank-cap', max(sol[k].ranks) <= mr, 'ranks %s cap %d' % (sol[k].ranks, mr))
        # observed order against the exact exponential (through the library, T = 1)
        if nz == 0 and h == 0.5 and case['r0'] == 'max':
            T = 1.0
            errs = []
            for n in (2, 4):
                with r.op(key + ':order:call'):
                    sol = call(scheme, T / n, n, 0)
                    errs.append(np.linalg.norm(vec(sol[-1]) - sl.expm(T * H) @ x0))
            if len(errs) == 2 and 1e-10 <= errs[0] <= 5e-2 and errs[1] > 1e-12:
                p = np.log2(errs[0] / errs[1])
                r.true(key + ':order', p >= ORDER[scheme] - 0.6, 'observed order %.2f (errors %.2e %.2e), expected >= %d' % (p, errs[0], errs[1], ORDER[scheme]))
                r.count('order_checks')
            else:
                r.count('order_checks_outside_window')
    # linearity: a state of tiny norm (1e-9) with the DEFAULT relative threshold must be propagated just as exactly
    if nz == 0 and h == 0.1 and case['r0'] == 'max':
        sc_ = 1e-9
        xs_ = sc_ * x0t
        for scheme in ('lie', 'strang', 'yoshida', 'kahan_li'):
            with r.op(scheme + ':tiny-state:call'):
                Sx, Lx, Ix, Mx = [copy_comp(X) for X in comp0]
                sol = fns[scheme](Sx, Lx, Ix, Mx, xs_, h, 2, threshold=1e-12, max_rank=200, normalize=0)
                U_ = step_matrix(scheme, He, Ho, h)
                if meta_problem(sol[-1]) is None:
                    r.close(scheme + ':tiny-state', vec(sol[-1]) / sc_, U_ @ (U_ @ x0), 1e-8, 'initial norm %g, threshold 1e-12' % sc_)
    # history: the SAME component objects are passed again after their contents were changed in place (time-dependent
    # fields): the second call must use the new values
    if nz == 0 and h == 0.1 and case['r0'] == 1:
        Sx, Lx, Ix, Mx = [copy_comp(X) for X in comp0]
        for scheme in ('lie', 'strang', 'yoshida', 'kahan_li'):
            with r.op(scheme + ':reuse:call'):
                fns[scheme](Sx, Lx, Ix, Mx, x0t, h, 1, threshold=0, max_rank=50, normalize=0)
                if isinstance(Sx, list):
                    Sx[-1] *= 0.5; Sx[0] = Sx[0] * 2.0
                else:
                    Sx *= 0.5
                sol = fns[scheme](Sx, Lx, Ix, Mx, x0t, h, 1, threshold=0, max_rank=50, normalize=0)
                He2, Ho2, _ = dense_generators(Sx, Lx, Ix, Mx, dims)
                if meta_problem(sol[-1]) is None:
                    r.close(scheme + ':reuse:state', vec(sol[-1]), step_matrix(scheme, He2, Ho2, h) @ x0, 1e-9,
                            'second call with the same component objects after an in-place change of S')
                if isinstance(Sx, list):
                    Sx[-1] *= 2.0; Sx[0] = Sx[0] * 0.5
                else:
                    Sx *= 2.0
    r.true('splitting:initial-unchanged', unchanged(x0t, sX), 'initial state modified')
    return r
