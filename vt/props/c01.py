"""C01 — TT arithmetic equals dense linear algebra. Exhaustive lattice over (order, row dims, col dims, rank vectors,
dtype pair, value family); every value-level operation is applied at every lattice point and compared with einsum."""
import itertools
import numpy as np
from vt.core import R, rng_for, dn, mat, mk_tt, rank_vectors, snap, unchanged, meta_problem, subsets

ID = 'C01'
LEVEL = 'exploration'
RULE = ('complete Cartesian enumeration of order x row_dims x col_dims x rank vector of A x rank vector of B x dtype-pattern pair (real, complex, mixed real/complex cores) '
        'x value family; per point all of: full, matricize, element at ALL index tuples, +, -, scalar*T, T*scalar, '
        '@/dot (operator.operator, operator.vector, scalar-returning), transpose (all core subsets, conjugate), conj, '
        'copy, norm(2), norm(1), residual_error (all three rank vectors), isoperator, zeros/ones/eye/unit(all '
        'indices)/uniform, TT(array) round trip; the conversions and a sample of the operations again with the cores of the operand in Fortran order and as transposed views. A case is non-trivial if it has order 1, a size-1 mode, a rank > 1 '
        'or a complex operand; cases are distinct by construction (distinctness measured by hashing the case).')
ASSUMPTIONS = ['numpy.einsum / dense NumPy expressions are the reference semantics',
               'values: families gauss, small-int (exact ties/zeros), non-negative (1-norm); entries are not enumerated',
               'boundary ranks 1 (D1)']
CHUNK = {'quick': 24, 'thorough': 48}
SCALARS = [0, 1, -2, 0.5, 1.5 - 0.5j, np.float64(2.0)]
TOL = 1e-10


def space(tier):
    if tier == 'quick':
        return {'orders': [1, 2, 3], 'dims': [1, 2], 'ranksA': [1, 2], 'ranksB': [1, 2], 'dtypes': 'all 16 pairs of per-core dtype patterns {real, complex, core0 real + rest complex, only core0 complex}',
                'fam': ['gauss', 'int']}
    return {'orders 1-2': {'dims': [1, 2, 3], 'ranksA': [1, 2, 3], 'ranksB': [1, 2, 3], 'dtypes': 'all 16 pattern pairs'},
            'order 3': [{'dims': [1, 2], 'ranks': [1, 2], 'dtypes': 'all 16 pattern pairs'}, {'dims': [1, 2, 3], 'ranksA': [1, 2], 'ranksB': [1, 3], 'dtypes': '6 pattern pairs'}],
            'order 4': {'dims': [1, 2], 'ranks': [1, 2], 'dtypes': '6 pattern pairs'},
            'order 5': {'size vectors': [[2, 1, 2, 1, 2], [1, 2, 2, 2, 1], [2, 2, 2, 2, 2]], 'rank vectors': 3, 'dtypes': '6 pattern pairs'},
            'fam': ['gauss', 'int (all patterns up to order 3 with sizes {1,2}; real operands otherwise)']}


def cases(tier):
    ALL16 = list(itertools.product([False, True, 'tail', 'head'], repeat=2))
    SIX = [(False, False), (True, True), (False, True), (True, False), ('tail', 'head'), ('head', 'tail')]
    if tier == 'quick':
        plan = [(d, [1, 2], [1, 2], [1, 2], None, ALL16, True) for d in (1, 2, 3)]
    else:
        # orders 1-2: the full product over sizes and ranks {1,2,3}; order 3: sizes {1,2,3}, ranks {1,2} x {1,3}; order 4: sizes
        # {1,2}, ranks {1,2}; order 5: three size vectors x three rank vectors. From order 3 on, six dtype-pattern pairs and the
        # integer family only for real operands (the complete 16-pattern product is in the quick tier for sizes/ranks {1,2}).
        plan = [(d, [1, 2, 3], [1, 2, 3], [1, 2, 3], None, ALL16, True) for d in (1, 2)]
        plan += [(d, [1, 2], [1, 2], [1, 2], None, ALL16, True) for d in (3,)]            # the quick lattice is a subset of thorough
        plan += [(3, [1, 2, 3], [1, 2], [1, 3], None, SIX, False), (4, [1, 2], [1, 2], [1, 2], None, SIX, False)]
        five = [[2, 1, 2, 1, 2], [1, 2, 2, 2, 1], [2, 2, 2, 2, 2]]
        plan += [(5, None, None, None, five, SIX, False)]
    seen = set()
    for d, dims, ra, rb, vecs, pats, intall in plan:
        rowsets = list(itertools.product(dims, repeat=d)) if vecs is None else vecs
        if vecs is None:
            rvA = list(rank_vectors(d, ra)); rvB = list(rank_vectors(d, rb))
        else:
            rvA = rvB = [[1] * (d + 1), [1] + [2] * (d - 1) + [1], [1, 2, 1, 2, 1, 1][:d] + [1]]
        for rows in rowsets:
            for cols in rowsets:
                for rA in rvA:
                    for rB in rvB:
                        for cA, cB in (pats if d > 1 else itertools.product([False, True], repeat=2)):
                            for fam in ('gauss', 'int'):
                                if fam == 'int' and not intall and (cA or cB):
                                    continue
                                case = {'d': d, 'rows': list(rows), 'cols': list(cols), 'rA': list(rA), 'rB': list(rB), 'cA': cA,
                                        'cB': cB, 'fam': fam}
                                k = repr(case)
                                if k in seen:
                                    continue
                                seen.add(k)
                                yield case


def run_case(case, seed):
    import scikit_tt.tensor_train as tt
    from scikit_tt.tensor_train import TT
    r = R(case)
    d, rows, cols, rA, rB, cA, cB, fam = (case[k] for k in ('d', 'rows', 'cols', 'rA', 'rB', 'cA', 'cB', 'fam'))
    r.nontrivial = d == 1 or 1 in rows or 1 in cols or max(rA) > 1 or max(rB) > 1 or cA or cB
    o1 = ':order1' if d == 1 else ''
    rng = rng_for(case, seed)
    A = mk_tt(rng, rows, cols, rA, cA, fam)
    B = mk_tt(rng, rows, cols, rB, cB, fam)
    sA, sB = snap(A), snap(B)
    a, b = dn(A), dn(B)
    Am = mat(A)
    M, N = Am.shape

    def K(op, kind):
        return '%s%s:%s' % (op, o1, kind)

    def chk_tt(op, T, want, ranks=None, tol=TOL):
        if not r.true(K(op, 'type'), isinstance(T, TT), 'returned %s' % type(T)):
            return
        mp = meta_problem(T)
        if not r.true(K(op, 'meta'), mp is None, mp):
            return
        r.close(K(op, 'value'), dn(T), want, tol)
        if ranks is not None:
            r.true(K(op, 'ranks'), list(T.ranks) == list(ranks), 'ranks %s expected %s' % (T.ranks, ranks))

    # conversions
    with r.op(K('full', 'call')):
        r.close(K('full', 'value'), A.full(), a, TOL)
    with r.op(K('matricize', 'call')):
        r.close(K('matricize', 'value'), A.matricize(), Am.reshape(M) if N == 1 else Am, TOL)
    with r.op(K('element', 'call')):
        bad = 0
        for idx in itertools.product(*[range(s) for s in a.shape]):
            e = A.element([int(i) for i in idx])
            r.checks += 1
            if not abs(e - a[idx]) <= TOL * max(1.0, abs(a[idx])):
                bad += 1
                last = (idx, e, a[idx])
        if bad:
            r.fail(K('element', 'value'), '%d wrong elements, e.g. %s' % (bad, last))
        # entries of tiny magnitude (complex trains scaled by 1e-18) are complex numbers all the same
        if np.iscomplexobj(a):
            At = 1e-18 * A
            idx = tuple(s_ - 1 for s_ in a.shape)
            e = At.element([int(i) for i in idx])
            r.true(K('element', 'tiny-scale'), abs(e - 1e-18 * a[idx]) <= TOL * 1e-18 * max(1.0, abs(a[idx])), 'entry of 1e-18*T: %r, expected %r' % (e, 1e-18 * a[idx]))
        # NumPy integers are documented index types
        for npt in (np.int64, np.int32):
            for idx in (tuple(s - 1 for s in a.shape), tuple(0 for s in a.shape)):
                e = A.element([npt(i) for i in idx])
                r.true(K('element', 'numpy-int-index'), abs(e - a[idx]) <= TOL * max(1.0, abs(a[idx])), '%s indices %s' % (npt.__name__, idx))
    r.true(K('isoperator', 'value'), A.isoperator() == (not (all(x == 1 for x in rows) or all(x == 1 for x in cols))))

    # sum / difference
    rsum = [1] + [rA[i] + rB[i] for i in range(1, d)] + [1]
    with r.op(K('add', 'call')):
        chk_tt('add', A + B, a + b, rsum)
    with r.op(K('sub', 'call')):
        chk_tt('sub', A - B, a - b, rsum)
    # scalar multiples
    for s in SCALARS:
        with r.op(K('mul', 'call')):
            Pm = A * s
            chk_tt('mul', Pm, a * s, rA)
            r.true(K('mul', 'new-object'), Pm is not A and all(x_ is not y_ for x_, y_ in zip(Pm.cores, A.cores)), 'T * %r is the operand itself (or shares its core objects)' % (s,))
        with r.op(K('rmul', 'call')):
            Pm = s * A
            chk_tt('rmul', Pm, a * s, rA)
            r.true(K('rmul', 'new-object'), Pm is not A, '%r * T is the operand itself' % (s,))
    # transpose family
    for S in subsets(d):
        want = a
        for i in S:
            want = np.swapaxes(want, i, d + i)
        with r.op(K('transpose', 'call')):
            chk_tt('transpose', A.transpose(cores=list(S)), want, rA)
        if len(S) == d:
            # conjugate=True conjugates exactly the listed cores; for a proper subset that is not a function of the
            # tensor (gauge dependent) and nothing documents it, so only the full list is compared with conj().T
            with r.op(K('transpose', 'call')):
                chk_tt('transposeH', A.transpose(cores=list(S), conjugate=True), np.conj(want), rA)
    want = np.transpose(a, list(range(d, 2 * d)) + list(range(d)))
    with r.op(K('transpose', 'call')):
        chk_tt('transpose', A.transpose(), want, rA)
        chk_tt('transposeH', A.transpose(conjugate=True), np.conj(want), rA)
    with r.op(K('conj', 'call')):
        chk_tt('conj', A.conj(), np.conj(a), rA)
    with r.op(K('copy', 'call')):
        C = A.copy()
        chk_tt('copy', C, a, rA)
        r.true(K('copy', 'alias'), C is not A and not any(np.shares_memory(x, y) for x, y in zip(C.cores, A.cores)),
               'copy shares memory')
    # norms
    with r.op(K('norm2', 'call')):
        r.close(K('norm2', 'value'), A.norm(p=2), np.linalg.norm(a.ravel()), 1e-9)
        r.close(K('norm2', 'value'), A.norm(), np.linalg.norm(a.ravel()), 1e-9)
    P = mk_tt(rng, rows, cols, rA, False, 'nonneg')
    Pm = mat(P)
    if all(x == 1 for x in rows):
        Pm = Pm.T
    with r.op(K('norm1', 'call')):
        r.close(K('norm1', 'value'), P.norm(p=1), np.max(np.sum(Pm, axis=0)), 1e-10)

    # products: second operand with row dims = cols of A
    for pcols in ([1] * d, list(rows), list(cols)):
        if pcols == list(cols) and (list(cols) == list(rows) or list(cols) == [1] * d):
            continue
        C = mk_tt(rng, cols, pcols, rB, cB, fam)
        sC = snap(C)
        want = (Am @ mat(C))
        for name, f in (('matmul', lambda: A @ C), ('dot', lambda: A.dot(C))):
            with r.op(K(name, 'call')):
                Pr = f()
                if all(x == 1 for x in rows) and all(x == 1 for x in pcols):
                    r.true(K(name, 'scalar-type'), not isinstance(Pr, TT), 'all-ones product must be a scalar')
                    if not isinstance(Pr, TT):
                        r.close(K(name, 'scalar'), np.asarray(Pr).reshape(()), want.reshape(()), 1e-10)
                else:
                    if r.true(K(name, 'type'), isinstance(Pr, TT), type(Pr)):
                        mp = meta_problem(Pr)
                        if r.true(K(name, 'meta'), mp is None, mp):
                            r.close(K(name, 'value'), mat(Pr), want, 1e-10)
                            r.true(K(name, 'ranks'), list(Pr.ranks) == [x * y for x, y in zip(rA, rB)],
                                   'ranks %s' % Pr.ranks)
                            r.true(K(name, 'dims'), list(Pr.row_dims) == list(rows) and list(Pr.col_dims) == pcols,
                                   'dims %s %s' % (Pr.row_dims, Pr.col_dims))
        r.true(K('matmul', 'operand'), unchanged(C, sC), 'second factor modified')

    # residual error  ||A x - b||
    X = mk_tt(rng, cols, [1] * d, rB, cB, fam)
    Bv = mk_tt(rng, rows, [1] * d, rA, cA, fam)
    Y = mk_tt(rng, rows, [1] * d, rB, cA, fam)
    for rhs in (Bv, Y):
        want = np.linalg.norm(Am @ mat(X).reshape(-1) - mat(rhs).reshape(-1))
        sc = np.linalg.norm(Am) * np.linalg.norm(mat(X)) + np.linalg.norm(mat(rhs))
        with r.op(K('residual_error', 'call')):
            got = tt.residual_error(A, X, rhs)
            r.true(K('residual_error', 'value'), abs(got - want) <= 1e-10 * max(1.0, sc), 'got %r want %r' % (got, want))
    # exact residual zero: b = A@x
    if not (all(x == 1 for x in rows) and True and all(x == 1 for x in [1] * d) and False):
        with r.op(K('residual_error', 'call')):
            AX = A @ X
            if isinstance(AX, TT):
                got = tt.residual_error(A, X, AX)
                sc = np.linalg.norm(Am) * np.linalg.norm(mat(X))
                r.true(K('residual_error', 'zero'), abs(got) <= 1e-9 * max(1.0, sc), 'got %r want 0' % (got,))

    # constructors (depend on dims / ranks only)
    if not cA and not cB and fam == 'gauss':
        for rk in (rA, max(rA)):
            rl = rk if isinstance(rk, list) else [1] + [rk] * (d - 1) + [1]
            paths = float(np.prod(rl[1:-1])) if d > 1 else 1.0
            with r.op(K('zeros', 'call')):
                chk_tt('zeros', tt.zeros(list(rows), list(cols), rk if not isinstance(rk, list) else list(rk)),
                       np.zeros(a.shape), rl)
            with r.op(K('ones', 'call')):
                chk_tt('ones', tt.ones(list(rows), list(cols), rk if not isinstance(rk, list) else list(rk)),
                       paths * np.ones(a.shape), rl)
            for nrm in (1, 2.5):
                with r.op(K('uniform', 'call')):
                    U = tt.uniform(list(rows), ranks=(rk if not isinstance(rk, list) else list(rk)), norm=nrm)
                    chk_tt('uniform', U, np.full(tuple(rows) + (1,) * d, nrm / np.sqrt(np.prod(rows))), rl, 1e-12)
            with r.op(K('rand', 'call')):
                T = tt.rand(list(rows), list(cols), rk if not isinstance(rk, list) else list(rk))
                mp = meta_problem(T)
                r.true(K('rand', 'meta'), mp is None and list(T.ranks) == rl and list(T.row_dims) == list(rows)
                       and list(T.col_dims) == list(cols), mp)
        with r.op(K('eye', 'call')):
            E = tt.eye(list(rows))
            if r.true(K('eye', 'meta'), meta_problem(E) is None, meta_problem(E)):
                r.close(K('eye', 'value'), mat(E), np.eye(M), 0)
        with r.op(K('unit', 'call')):
            for inds in itertools.product(*[range(s) for s in rows]):
                want = np.zeros(tuple(rows) + (1,) * d)
                want[tuple(inds) + (0,) * d] = 1
                chk_tt('unit', tt.unit(list(rows), [int(i) for i in inds]), want, [1] * (d + 1), 0)
        # history: the arrays of an earlier result are edited in place (the idiom tests/test_ode.py uses on tt.zeros); a later
        # constructor call must still return its defining tensor
        ctors = [('eye', lambda: tt.eye(list(rows)), lambda T: mat(T), np.eye(int(np.prod(rows)))),
                 ('ones', lambda: tt.ones(list(rows), list(cols)), dn, np.ones(a.shape)),
                 ('zeros', lambda: tt.zeros(list(rows), list(cols)), dn, np.zeros(a.shape)),
                 ('unit', lambda: tt.unit(list(rows), [0] * d), dn, None),
                 ('uniform', lambda: tt.uniform(list(rows), ranks=1, norm=1), dn, None)]
        for nm, mk_, dense_, want_ in ctors:
            with r.op(K(nm + ':after-in-place-edit', 'call')):
                first = mk_()
                w0 = dense_(first).copy() if want_ is None else want_
                for c_ in first.cores:
                    c_ += 1.5
                    c_[(0,) * 4] = -2.0
                second = mk_()
                if meta_problem(second) is None:
                    r.close(K(nm + ':after-in-place-edit', 'value'), dense_(second), w0, 0)
                r.true(K(nm + ':after-in-place-edit', 'distinct-object'), second is not first)
    # TT(array) round trip (exact for threshold 0 / unbounded rank)
    with r.op(K('from_array', 'call')):
        T = TT(np.array(a))
        if r.true(K('from_array', 'meta'), meta_problem(T) is None, meta_problem(T)):
            r.close(K('from_array', 'value'), dn(T), a, 1e-10)
            r.true(K('from_array', 'dims'), list(T.row_dims) == list(rows) and list(T.col_dims) == list(cols))
    # the same operand in other memory layouts (Fortran-ordered cores; cores that are transposed views, as returned by
    # transpose()/rank_transpose()): a TT denotes the contraction of its cores whatever their strides are
    if fam == 'gauss':
        for lay in ('F', 'V'):
            if lay == 'F':
                cores2 = [np.asfortranarray(c) for c in A.cores]
            else:
                cores2 = [np.transpose(np.ascontiguousarray(np.transpose(c, (0, 2, 1, 3))), (0, 2, 1, 3)) for c in A.cores]
            A2 = TT(cores2)
            kl = lambda op, kind: K(op + ':layout' + lay, kind)
            with r.op(kl('full', 'call')):
                r.close(kl('full', 'value'), A2.full(), a, TOL)
            with r.op(kl('matricize', 'call')):
                r.close(kl('matricize', 'value'), A2.matricize(), Am.reshape(M) if N == 1 else Am, TOL)
            with r.op(kl('element', 'call')):
                idx = tuple(int(x) - 1 for x in a.shape)
                e = A2.element([int(i) for i in idx])
                r.true(kl('element', 'value'), abs(e - a[idx]) <= TOL * max(1.0, abs(a[idx])), 'last element')
            with r.op(kl('norm2', 'call')):
                r.close(kl('norm2', 'value'), A2.norm(), np.linalg.norm(a.ravel()), 1e-9)
            with r.op(kl('add', 'call')):
                T = A2 + B
                if meta_problem(T) is None:
                    r.close(kl('add', 'value'), dn(T), a + b, TOL)
            with r.op(kl('transpose', 'call')):
                T = A2.transpose()
                if meta_problem(T) is None:
                    r.close(kl('transpose', 'value'), dn(T), np.transpose(a, list(range(d, 2 * d)) + list(range(d))), TOL)
                    r.close(kl('transpose', 'full'), T.full(), np.transpose(a, list(range(d, 2 * d)) + list(range(d))), TOL)
            with r.op(kl('copy', 'call')):
                r.close(kl('copy', 'value'), dn(A2.copy()), a, 0)
            with r.op(kl('mul', 'call')):
                r.close(kl('mul', 'value'), dn(A2 * 2.0), 2.0 * a, TOL)
    # overwrite variants: the object itself must afterwards denote the transposed / conjugated tensor; also when ONE array
    # object is used for several cores (possible when all ranks are 1 and the modes are equal)
    builds = [('', lambda: TT([np.array(c) for c in A.cores]))]
    if d >= 2 and all(x == 1 for x in rA) and len(set(rows)) == 1 and len(set(cols)) == 1 and len({c.dtype for c in A.cores}) == 1:
        c0 = A.cores[0]
        same = dn(TT([np.array(c0) for _ in range(d)]))
        builds.append((':same-core-object', lambda: TT([np.array(c0)] * d)))
    for tag, mk in builds:
        ref = a if tag == '' else same
        full_T = np.transpose(ref, list(range(d, 2 * d)) + list(range(d)))
        for nm, call, want in (('conj:overwrite', lambda T: T.conj(overwrite=True), np.conj(ref)),
                               ('transpose:overwrite', lambda T: T.transpose(overwrite=True), full_T),
                               ('transposeH:overwrite', lambda T: T.transpose(conjugate=True, overwrite=True), np.conj(full_T))):
            with r.op(K(nm + tag, 'call')):
                T = mk()
                ret = call(T)
                r.true(K(nm + tag, 'returns-self'), ret is T, 'overwrite=True must return the object itself')
                if meta_problem(T) is None:
                    r.close(K(nm + tag, 'value'), dn(T), want, TOL)
                else:
                    r.fail(K(nm + tag, 'meta'), str(meta_problem(T)))
        if tag:
            with r.op(K('conj' + tag, 'call')):
                T = mk()
                chk_tt('conj' + tag, T.conj(), np.conj(ref))
                chk_tt('transpose' + tag, T.transpose(), full_T)
                r.close(K('norm2' + tag, 'value'), T.norm(), np.linalg.norm(ref.ravel()), 1e-9)
                r.close(K('same-core-object', 'unchanged'), dn(T), ref, 0)
    # operands untouched by everything above
    r.true(K('operands', 'unchanged'), unchanged(A, sA) and unchanged(B, sB), 'A or B modified by a value-level op')
    return r
