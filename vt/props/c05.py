"""C05 — global SVD and pseudoinverse of a TT vector match the matrix ones for every split index."""
import itertools
import numpy as np
from vt.core import (R, rng_for, dn, dnb, rand_cores, lowrank_cores, tt_from, rank_vectors, snap, unchanged,
                     meta_problem)

ID = 'C05'
LEVEL = 'exploration'
RULE = ('complete enumeration of order x row dims x rank vector x dtype x value family (generic, rank-deficient '
        'unfoldings, small-int, exactly tied singular values) x representation gauge (raw, all cores but the first left-orthonormal, all but the last right-orthonormal) x overall scale {1, 1e-12, 1e10} x EVERY split index x (ortho_l, ortho_r) flags (False only on an already orthonormal '
        'side) x overwrite x threshold {0,1e-10} x max_rank {inf,1,2}; svd and pinv at each point. Non-trivial: order '
        '>= 3, a rank-deficient unfolding, complex data, a disabled sweep, overwrite or truncation.')
ASSUMPTIONS = ['numpy.linalg.svd / pinv of the dense unfolding are the reference', 'column dimensions 1 (D2)',
               'thresholds lie in a spectral gap (D7): rank-deficient data has exact zeros up to rounding',
               'pinv on rank-deficient unfoldings only with threshold > 0 (reciprocals of rounding-level values are meaningless)']
CHUNK = 24


def space(tier):
    q = tier == 'quick'
    return {'orders': [2, 3] if q else [2, 3, 4], 'rows': [1, 2, 3], 'ranks': [1, 2, 3], 'families': ['gauss', 'lowrank', 'int', 'ties (weighted unit tensors)'], 'gauges': ['raw', 'left-orthonormal but first core', 'right-orthonormal but last core'],
            'flags': 'ortho_l x ortho_r x overwrite', 'threshold': [0, 1e-10], 'max_rank': ['inf', 1, 2]}


def cases(tier):
    q = tier == 'quick'
    # pipelines (hierarchical splitting): a factor returned by t.svd(j) -- a train whose first (v) or last (u) boundary rank is
    # the bond of the first splitting -- is split again; its inner bonds may exceed the product of the mode sizes on one side
    for rows in ([2, 2, 2, 2], [3, 2, 2, 2], [2, 2, 2, 3]) + (() if q else ([2, 2, 2, 2, 2], [3, 3, 3, 3])):
        for c in (False, True):
            for j in range(1, len(rows)):
                yield {'pipe': True, 'rows': list(rows), 'c': c, 'j': j}
    for d in ([2, 3] if q else [2, 3, 4, 5]):
        for rows in itertools.product(([1, 2, 3] if q else [1, 2, 3, 4]) if d < 4 else ([2, 3] if d == 4 else [2]), repeat=d):
            for rk in rank_vectors(d, ([1, 2, 3] if (d < 3 or not q) else [1, 3]) if d < 5 else [1, 2]):
                for c in (False, True):
                    for fam in ('gauss', 'lowrank', 'int'):
                        if d >= 4 and fam == 'int':
                            continue
                        for idx in range(1, d):
                            for scale in (1.0, 1e-12, 1e10):
                                if scale != 1.0 and fam == 'int':
                                    continue
                                yield {'rows': list(rows), 'r': rk, 'c': c, 'fam': fam, 'idx': idx, 'scale': scale}
                                if fam == 'gauss' and scale == 1.0 and c is True and d >= 2:
                                    # per-core dtype mixtures: real first core with complex later cores, and only the first complex
                                    yield {'rows': list(rows), 'r': rk, 'c': 'tail', 'fam': fam, 'idx': idx, 'scale': scale}
                                    yield {'rows': list(rows), 'r': rk, 'c': 'head', 'fam': fam, 'idx': idx, 'scale': scale}
                            if fam == 'gauss':
                                # partially orthonormal representations: every core but the first left-orthonormal / every core but
                                # the last right-orthonormal (what scalar * ortho_left() or sums of unit tensors look like)
                                for gauge in ('left-but-first', 'right-but-last'):
                                    yield {'rows': list(rows), 'r': rk, 'c': c, 'fam': fam, 'idx': idx, 'scale': 1.0, 'gauge': gauge}
                                if d >= 3:
                                    # badly balanced representation: one interior core of magnitude 1e-12, compensated in the first core
                                    yield {'rows': list(rows), 'r': rk, 'c': c, 'fam': fam, 'idx': idx, 'scale': 1.0, 'gauge': 'unbalanced'}
            if min(rows) >= 2:
                for c in (False, True):
                    for idx in range(1, d):
                        yield {'rows': list(rows), 'r': [1] + [min(rows)] * (d - 1) + [1], 'c': c, 'fam': 'ties', 'idx': idx, 'scale': 1.0}
                        # weighted unit tensors with weights 2, 1e-17, 1e-3: a retained singular-value ratio below 1e-15
                        yield {'rows': list(rows), 'r': [1] + [min(rows)] * (d - 1) + [1], 'c': c, 'fam': 'graded', 'idx': idx, 'scale': 1.0}
    # several comparable singular values and one only 1.5 times above the relative cut; the factors are orthonormal, so the
    # sweeps cannot truncate anything and the cut acts on the unfolding's own spectrum
    for rows in ([6, 6], [6, 7], [2, 3, 6]):
        for c in (False, True):
            for thr in (2e-6, 1e-3):
                yield {'rows': rows, 'r': [1] + [6] * (len(rows) - 1) + [1], 'c': c, 'fam': 'nearcut', 'idx': len(rows) - 1, 'scale': 1.0, 'thr': thr}
    if q:
        # order 4 (the first order with a split index whose left part has an interior core)
        for rows in ([2, 2, 2, 2], [2, 3, 2, 2]):
            for rk in ([1, 2, 2, 2, 1], [1, 2, 3, 2, 1]):
                for c in (False, True):
                    for idx in (1, 2, 3):
                        for gauge in (None, 'left-but-first', 'right-but-last'):
                            yield {'rows': rows, 'r': rk, 'c': c, 'fam': 'gauss', 'idx': idx, 'scale': 1.0, 'gauge': gauge}
                        if rk[1:-1] == [2, 2, 2]:
                            yield {'rows': rows, 'r': rk, 'c': c, 'fam': 'ties', 'idx': idx, 'scale': 1.0}


def run_pipe(case, seed):
    r = R(case)
    rng = rng_for(case, seed)
    rows, c, j = case['rows'], case['c'], case['j']
    d = len(rows)
    from vt.core import max_ranks, dense_cores
    t = tt_from(rand_cores(rng, rows, [1] * d, max_ranks(rows), c))
    r.nontrivial = True
    with r.op('pipe:first-split:call'):
        u1, s1, v1 = t.svd(j)
    for name, x in (('v', v1), ('u', u1)):
        if meta_problem(x) is not None or x.order < 2:
            continue
        sx = snap(x)
        full = dense_cores(x.cores)                       # (r0, n.., 1.., rd)
        full = full.reshape([x.ranks[0]] + list(x.row_dims) + [x.ranks[-1]])
        for idx in range(1, x.order):
            mrow = x.ranks[0] * int(np.prod(x.row_dims[:idx]))
            A = full.reshape(mrow, -1)
            sref = np.linalg.svd(A, compute_uv=False)
            key = 'pipe:%s-factor' % name
            with r.op(key + ':svd:call'):
                u, sv, v = x.svd(idx)
                if meta_problem(u) is None and meta_problem(v) is None:
                    U = dense_cores(u.cores).reshape(mrow, -1); V = dense_cores(v.cores).reshape(len(sv), -1)
                    k_ = int(np.sum(sref > 1e-12 * sref[0]))
                    r.true(key + ':svd:count', len(sv) >= k_, '%d singular values, unfolding has rank %d (ranks %s, index %d)' % (len(sv), k_, x.ranks, idx))
                    kk = min(len(sv), len(sref))
                    r.close(key + ':svd:singular-values', np.asarray(sv)[:kk], sref[:kk], 1e-10, 'ranks %s index %d' % (x.ranks, idx))
                    r.close(key + ':svd:reconstruction', (U * np.asarray(sv)) @ V, A, 1e-10, 'ranks %s index %d' % (x.ranks, idx))
                    r.close(key + ':svd:u-orthonormal', U.conj().T @ U, np.eye(U.shape[1]), 1e-10)
                    r.close(key + ':svd:v-orthonormal', V @ V.conj().T, np.eye(V.shape[0]), 1e-10)
                else:
                    r.fail(key + ':svd:meta', 'factor is not a consistent train')
            r.true(key + ':svd:input-unchanged', unchanged(x, sx))
            with r.op(key + ':pinv:call'):
                pv = x.pinv(idx)
                if meta_problem(pv) is None:
                    Pref = np.linalg.pinv(A).conj().T
                    r.close(key + ':pinv:value', dense_cores(pv.cores).reshape(mrow, -1), Pref, 1e-9, 'ranks %s index %d' % (x.ranks, idx))
            r.true(key + ':pinv:input-unchanged', unchanged(x, sx))
    return r


def run_case(case, seed):
    if case.get('pipe'):
        return run_pipe(case, seed)
    r = R(case)
    rng = rng_for(case, seed)
    rows, rk, c, fam, idx = case['rows'], case['r'], case['c'], case['fam'], case['idx']
    d = len(rows)
    if fam == 'nearcut':
        cores0 = rand_cores(rng, rows, [1] * d, rk, c, 'gauss')
    elif fam == 'lowrank':
        cores0 = lowrank_cores(rng, rows, [1] * d, rk, c, 1)
    elif fam == 'graded':
        J = rk[1]
        w = ([2.0, 1e-17, 1e-3] + [0.5, 0.25, 0.125, 0.0625])[:J]
        cores0 = []
        for i in range(d):
            cr = np.zeros((1 if i == 0 else J, rows[i], 1, 1 if i == d - 1 else J), dtype=complex if c else float)
            for j in range(J):
                cr[0 if i == 0 else j, j, 0, 0 if i == d - 1 else j] = (w[j] * ((1j) ** j if c else 1.0)) if i == 0 else 1.0
            cores0.append(cr)
    elif fam == 'ties':
        # sum of J unit tensors with weights (2,2,1): exactly tied singular values in every unfolding, inner cores are
        # partial identities (orthonormal on both sides), the weights sit in the first core
        J = rk[1]
        w = ([2.0, 2.0, 1.0] * 4)[:J]
        cores0 = []
        for i in range(d):
            cr = np.zeros((1 if i == 0 else J, rows[i], 1, 1 if i == d - 1 else J), dtype=complex if c else float)
            for j in range(J):
                cr[0 if i == 0 else j, j, 0, 0 if i == d - 1 else j] = (w[j] * ((1j) ** j if c else 1.0)) if i == 0 else 1.0
            cores0.append(cr)
    else:
        cores0 = rand_cores(rng, rows, [1] * d, rk, c, fam)
    gauge = case.get('gauge')
    if gauge == 'left-but-first':
        for i in range(d - 1):
            cr = cores0[i]
            qm, rm = np.linalg.qr(cr.reshape(-1, cr.shape[3]))
            cores0[i] = qm.reshape(cr.shape[0], cr.shape[1], 1, qm.shape[1])
            cores0[i + 1] = np.tensordot(rm, cores0[i + 1], axes=(1, 0))
        cores0[0] = 3.0 * cores0[0]
        if d > 2:
            cores0[0][0, 0, 0, :] += 0.5
    elif gauge == 'right-but-last':
        for i in range(d - 1, 0, -1):
            cr = cores0[i]
            qm, rm = np.linalg.qr(cr.reshape(cr.shape[0], -1).T)
            cores0[i] = qm.T.reshape(qm.shape[1], cr.shape[1], 1, cr.shape[3])
            cores0[i - 1] = np.tensordot(cores0[i - 1], rm.T, axes=(3, 0))
        cores0[-1] = 3.0 * cores0[-1]
        if d > 2:
            cores0[-1][:, 0, 0, 0] += 0.5
    elif gauge == 'unbalanced':
        j_ = d - 2
        cores0[j_] = cores0[j_] * 1e-12
        cores0[0] = cores0[0] * 1e12
    cores0[0] = cores0[0] * case.get('scale', 1.0)     # relative cuts must not depend on the scale of the tensor
    a = dn(tt_from(cores0)).reshape(rows)
    m = int(np.prod(rows[:idx])); n = int(np.prod(rows[idx:]))
    A = a.reshape(m, n)
    if fam == 'nearcut':
        thr = case['thr']
        mm, nn = int(np.prod(rows[:-1])), rows[-1]
        sv = np.array([1.0, 1.0, 1.0, 1.0, 1.0, 1.5 * thr])
        def on(p_, k_):
            z = rng.standard_normal((p_, k_)) + (1j * rng.standard_normal((p_, k_)) if c else 0)
            return np.linalg.qr(z)[0]
        Um, Vm = on(mm, 6), on(nn, 6)
        Amat = (Um * sv) @ Vm.conj().T
        from scikit_tt.tensor_train import TT as _TT
        T0 = _TT(Amat.reshape(rows + [1] * d))                 # left-orthonormal cores, the spectrum sits in the last core
        sref = np.linalg.svd(Amat, compute_uv=False)
        r.nontrivial = True
        with r.op('svd:nearcut:call'):
            u, s_, v = T0.svd(d - 1, threshold=thr)
            r.true('svd:nearcut:kept', len(s_) == 6, 'kept %d singular values, 6 lie above the relative cut %g (smallest ratio %g)' % (len(s_), thr, sref[5] / sref[0]))
            if len(s_) == 6:
                r.close('svd:nearcut:singular-values', np.asarray(s_), sref[:6], 1e-9)
        with r.op('pinv:nearcut:call'):
            P = T0.pinv(d - 1, threshold=thr)
            want = np.linalg.pinv(Amat, rcond=thr).conj().T
            if meta_problem(P) is None and list(P.row_dims) == rows:
                r.close('pinv:nearcut:value', dn(P).reshape(mm, nn) * sref[5], want * sref[5], 1e-7)
        return r
    if fam == 'graded':
        # threshold 0 keeps every singular direction, however small: the pseudoinverse (conjugate-transposed) of a weighted sum
        # of unit tensors has the entries 1/conj(w_j) where the tensor has w_j
        r.nontrivial = True
        want = np.zeros_like(A, dtype=complex if c else float)
        nzm = A != 0
        want[nzm] = 1.0 / np.conj(A[nzm])
        for ow in (False, True):
            T = tt_from(cores0); s0 = snap(T)
            with r.op('pinv:graded:call'):
                P = T.pinv(idx, threshold=0, overwrite=ow)
                if r.true('pinv:graded:meta', meta_problem(P) is None and list(P.row_dims) == rows, str(meta_problem(P))):
                    r.close('pinv:graded:value', dn(P).reshape(m, n) / np.abs(want).max(), want / np.abs(want).max(), 1e-9, 'weights 2, 1e-17, 1e-3; threshold 0')
                if not ow:
                    r.true('pinv:input-unchanged', unchanged(T, s0))
        return r
    sref = np.linalg.svd(A, compute_uv=False)
    if sref[0] == 0:
        r.skipped += 1
        return r
    nrank = int(np.sum(sref > 1e-11 * sref[0]))
    allranks = []
    for k_ in range(1, d):
        sk = np.linalg.svd(a.reshape(int(np.prod(rows[:k_])), -1), compute_uv=False)
        allranks.append(int(np.sum(sk > 1e-11 * sk[0])))
    deficient = nrank < min(m, n)
    r.nontrivial = True
    sc = sref[0]
    for ol, orr, ow, thr, mr in itertools.product([True, False], [True, False], [False, True], [0, 1e-10], [np.inf, 1, 2]):
        T = tt_from(cores0)
        if not ol:
            T.ortho_left(end_index=idx - 2)
        if not orr:
            T.ortho_right(end_index=idx)
        s0 = snap(T)
        kw = dict(threshold=thr, max_rank=mr, ortho_l=ol, ortho_r=orr, overwrite=ow)
        key = 'svd' + (':trunc' if mr != np.inf else '') + (':ow' if ow else '')
        with r.op(key + ':call'):
            u, s, v = T.svd(idx, **kw)
            ok = True
            for nm, part in (('u', u), ('v', v)):
                mp = meta_problem(part)
                ok &= r.true(key + ':meta', mp is None, '%s: %s' % (nm, mp))
            if ok:
                U = dnb(u); V = dnb(v)
                ok &= r.true(key + ':shapes', U.shape[0] == 1 and V.shape[-1] == 1 and U.shape[-1] == len(s) == V.shape[0]
                             and list(u.row_dims) == rows[:idx] and list(v.row_dims) == rows[idx:],
                             'u %s v %s s %s' % (U.shape, V.shape, np.shape(s)))
            if ok:
                k = len(s)
                U = U.reshape(m, k); V = V.reshape(k, n)
                r.close(key + ':u-orthonormal', U.conj().T @ U, np.eye(k), 1e-10)
                r.close(key + ':v-orthonormal', V @ V.conj().T, np.eye(k), 1e-10)
                r.true(key + ':s-sorted', np.all(np.diff(s) <= 1e-12 * sc) and np.all(np.asarray(s) >= 0))
                if mr == np.inf or mr >= max(rk):         # a cap that no bond of the representation reaches truncates nothing
                    kk = min(k, len(sref))
                    r.close(key + ':singular-values', np.asarray(s)[:kk] / sc, sref[:kk] / sc, 1e-10)
                    r.true(key + ':singular-values-complete', np.all(sref[k:] <= 1e-9 * sc), 'dropped %s' % sref[k:])
                    if thr != 0:
                        r.true(key + ':threshold-cut', k == nrank, 'kept %d numerical rank %d' % (k, nrank))
                    r.close(key + ':reconstruction', (U * np.asarray(s)) @ V / sc, A / sc, 1e-10)
                if mr != np.inf:
                    r.true(key + ':rank-cap', k <= mr and (not ol or all(x <= mr for x in u.ranks[1:])) and
                           (not orr or all(x <= mr for x in v.ranks[:-1])),   # a disabled sweep caps nothing on its side
                           'k=%d ranks %s %s' % (k, u.ranks, v.ranks))
            if ow:
                mp = meta_problem(T)
                r.true(key + ':self-meta', mp is None, mp)
            else:
                r.true(key + ':input-unchanged', unchanged(T, s0), 'svd(overwrite=False) changed its input')
        if mr != np.inf:
            continue
        if deficient and thr == 0:
            continue
        T = tt_from(cores0)
        if not ol:
            T.ortho_left(end_index=idx - 2)
        if not orr:
            T.ortho_right(end_index=idx)
        s0 = snap(T)
        key = 'pinv' + (':ow' if ow else '')
        with r.op(key + ':call'):
            # (flags passed positionally when nothing is overwritten: index, threshold, ortho_l, ortho_r is the documented order)
            P = T.pinv(idx, threshold=thr, ortho_l=ol, ortho_r=orr, overwrite=ow) if ow else T.pinv(idx, thr, ol, orr)
            mp = meta_problem(P)
            if r.true(key + ':meta', mp is None, mp) and r.true(key + ':dims', list(P.row_dims) == rows and
                                                               list(P.col_dims) == [1] * d):
                want = np.linalg.pinv(A, rcond=1e-10 if deficient else 1e-15).conj().T
                cond = sref[0] / sref[nrank - 1]
                r.close(key + ':value', dn(P).reshape(m, n) * sref[nrank - 1], want * sref[nrank - 1], 1e-9 * cond)
            if not ow:
                r.true(key + ':input-unchanged', unchanged(T, s0), 'pinv(overwrite=False) changed its input')
    # call histories on ONE object: repeated in-place splits (overwrite=True). Whatever tensor the object holds after a split,
    # the next split must be a correct SVD of THAT tensor (nothing may be remembered about earlier sweeps)
    if fam == 'gauss' and idx == 1 and d >= 3 and case.get('scale', 1.0) == 1.0:
        for seq in itertools.product(range(1, d), repeat=3):
            T = tt_from(cores0)
            for step, ix in enumerate(seq):
                if meta_problem(T) is not None or list(T.row_dims) != rows:
                    break
                now = dn(T).reshape(rows)
                mm = int(np.prod(rows[:ix]))
                An = now.reshape(mm, -1)
                sr = np.linalg.svd(An, compute_uv=False)
                if sr[0] == 0:
                    break
                key = 'svd:ow:history'
                with r.op(key + ':call'):
                    u, s_, v = T.svd(ix, overwrite=True)
                    if meta_problem(u) is None and meta_problem(v) is None and len(s_) > 0:
                        k_ = len(s_)
                        U = dnb(u).reshape(mm, k_); V = dnb(v).reshape(k_, -1)
                        what = 'in-place splits at %s, call %d' % (list(seq), step + 1)
                        r.close(key + ':u-orthonormal', U.conj().T @ U, np.eye(k_), 1e-9, what)
                        r.close(key + ':singular-values', np.asarray(s_)[:min(k_, len(sr))] / sr[0], sr[:min(k_, len(sr))] / sr[0], 1e-9, what)
                        r.close(key + ':reconstruction', (U * np.asarray(s_)) @ V / sr[0], An / sr[0], 1e-9, what)
                    else:
                        r.fail(key + ':meta', 'parts inconsistent (%s)' % (list(seq),))
                        break
    return r
