"""C11 — TDVP (one-site, two-site, hybrid) and Krylov: exact on representable dynamics, conservative; micro-step monitor."""
import itertools
import numpy as np
import scipy.linalg as sl
from vt.core import R, rng_for, rand_cores, tt_from, mat, vec, admissible_ranks, max_ranks, snap, unchanged, meta_problem
from vt import monitors as mon

ID = 'C11'
LEVEL = 'exploration'
RULE = ('complete enumeration of order x mode sizes x Hamiltonian kind (dense interacting real/complex Hermitian -> TT, '
        'non-interacting sum of local terms built in TT form) x EVERY admissible initial rank vector x step size {0.05,0.3} x '
        'normalize {0,2}; per point 3 steps of tdvp1site, tdvp2site and hybrid tdvp with (threshold,max_rank) in '
        '{(0,inf),(1e-12,50),(0,current max rank)}: every state of the returned list compared with expm(-i t H) x0 where the '
        'dynamics is representable (maximal ranks; non-interacting H at every rank), norm and energy conservation of 1TDVP at '
        'every rank, norm after EVERY micro-step (monitor on the local update functions), Krylov with every dimension 2..N '
        '(exact at N), list layout, input integrity, and a tiny-norm (1e-11) initial state with the default relative threshold. Non-trivial: order >= 2.')
ASSUMPTIONS = ['scipy.linalg.expm on the matricised Hamiltonian is the reference', 'initial state right-orthonormal and normalised (D4)',
               'Hamiltonians scaled to spectral norm <= 2']
CHUNK = 4
STATE = {'mon': None}


def space(tier):
    q = tier == 'quick'
    return {'orders': [1, 2, 3] + ([] if q else [4, 5]), 'dims': [2, 3], 'H': ['dense-real', 'dense-complex', 'local-sum-real', 'local-sum-complex'],
            'ranks': 'all admissible', 'h': [0.05, 0.3], 'steps': 3, 'normalize': [0, 2],
            'truncation': ['(0,inf)', '(1e-12,50)', '(0,max current rank)'], 'krylov dimension': '2..N'}


def cases(tier):
    q = tier == 'quick'
    yield from prodfirst_cases(tier)
    for d in ([1, 2, 3] if q else [1, 2, 3, 4, 5]):
        for dims in (itertools.product([2, 3], repeat=d) if d < 5 else [(2,) * 5]):
            if d == 4 and np.prod(dims) > 36:
                continue
            hks = ['dense-real', 'dense-complex', 'local-real', 'local-complex', 'dense-degenerate']
            if len(set(dims)) == 1 and d >= 2:
                hks += ['local-identical']           # identical non-interacting sites: highly degenerate spectrum
                if dims[0] == 2:
                    hks += ['heisenberg']
            for hk in hks:
                for rk in admissible_ranks(list(dims)):
                    for h in (0.05, 0.3):
                        for nz in (0, 2):
                            yield {'dims': list(dims), 'H': hk, 'r': rk, 'h': h, 'nz': nz}
                    # exactly one step
                    yield {'dims': list(dims), 'H': hk, 'r': rk, 'h': 0.3, 'nz': 0, 'nsteps': 1}
                    if list(rk) == max_ranks(list(dims)) and hk in ('dense-real', 'local-complex'):
                        # step counts for which n*h and the h summed n times differ in floating point (0.1: 7..12, 0.05: 6..12)
                        for h_, ns_ in ((0.1, 10), (0.05, 7), (0.2, 6)):
                            yield {'dims': list(dims), 'H': hk, 'r': rk, 'h': h_, 'nz': 0, 'nsteps': ns_, 'long': True}
                        # hybrid scheme on a maximal-rank state with a tiny Schmidt coefficient and a COARSE threshold: maximal-rank
                        # bonds are propagated by the one-site scheme, so nothing may be truncated
                        if d == 2:
                            yield {'dims': list(dims), 'H': hk, 'r': rk, 'h': 0.05, 'nz': 0, 'nsteps': 2, 'schmidt': True}
                    # the same problem in other units: H scaled by 1e-20, step by 1e20 (every entry of H, of the effective operators
                    # and of their imaginary parts is tiny in absolute terms; the flow is the same)
                    if list(rk) == max_ranks(list(dims)) or hk.startswith('local'):
                        yield {'dims': list(dims), 'H': hk, 'r': rk, 'h': 0.3, 'nz': 0, 'hscale': 1e-20}
                    # a hand-written product state with a REAL first core and complex later cores (unit-norm cores: right-orthonormal
                    # as it stands), under an operator whose cores are real
                    if max(rk) == 1 and d >= 2 and hk in ('dense-real', 'local-real'):
                        yield {'dims': list(dims), 'H': hk, 'r': rk, 'h': 0.3, 'nz': 0, 'x0': 'prod-headreal'}
                    # a REAL initial state (the flow is complex all the same)
                    yield {'dims': list(dims), 'H': hk, 'r': rk, 'h': 0.3, 'nz': 0, 'x0': 'real'}


def prodfirst_cases(tier):
    # x0 = a (x) phi with phi of maximal ranks on the remaining sites (ranks [1, 1, maximal...]): the first two-site update only
    # completes bond 1 (the basis of site 0 becomes complete, its forward and backward half steps cancel), afterwards every update
    # of the HYBRID scheme works with complete bases -- no update has a projection error, so the flow is exact although the ranks
    # of x0 are not maximal
    dimsets = [(2, 2, 2), (3, 3, 3), (2, 3, 2), (3, 2, 3), (2, 2, 2, 2), (2, 3, 2, 2), (3, 2, 2, 2)]
    if tier != 'quick':
        dimsets += [(2, 2, 3, 2), (3, 3, 2, 2), (2, 2, 2, 2, 2)]
    for dims in dimsets:
        rk = [1, 1] + max_ranks(list(dims[1:]))[1:]
        for hk in ('dense-real', 'dense-complex', 'heisenberg') if len(set(dims)) == 1 and dims[0] == 2 else ('dense-real', 'dense-complex'):
            for h in (0.05, 0.3):
                yield {'dims': list(dims), 'H': hk, 'r': rk, 'h': h, 'nz': 0, 'prodfirst': True}


class NormMonitor:
    def __init__(self, r, key):
        self.r = r; self.key = key; self.steps = 0

    def after(self, solution, what):
        self.steps += 1
        try:
            cores = solution.cores
            v = mon.right_part(cores, 0)
            nrm = np.linalg.norm(v)
            self.r.true(self.key + ':micro-step-norm', abs(nrm - 1) <= 1e-8, '%s: norm %r after local step %d' % (what, nrm, self.steps))
        except Exception as e:
            self.r.fail(self.key + ':micro-step-state', 'state not a consistent TT after %s: %r' % (what, e))


def _install():
    from scikit_tt.solvers import ode

    def wrap1(orig):
        def w(i, micro_op, solution, step_size, direction):
            out = orig(i, micro_op, solution, step_size, direction)
            m = STATE['mon']
            if m is not None:
                m.after(solution, '1-site %s core %d' % (direction, i))
            return out
        return w

    def wrap2(orig):
        def w(i, micro_op, solution, step_size, threshold, max_rank, direction):
            out = orig(i, micro_op, solution, step_size, threshold, max_rank, direction)
            m = STATE['mon']
            if m is not None:
                m.after(solution, '2-site %s cores %d,%d' % (direction, i, i + 1))
            return out
        return w
    mon.install(ode, '__update_core_tdvp', wrap1)
    mon.install(ode, '__update_core_tdvp2site', wrap2)


def make_H(rng, dims, kind):
    from scikit_tt.tensor_train import TT
    import scikit_tt.tensor_train as tt
    d = len(dims); n = int(np.prod(dims))
    cplx = kind.endswith('complex')

    def herm(k):
        a = rng.standard_normal((k, k)) + (1j * rng.standard_normal((k, k)) if cplx else 0)
        return (a + a.conj().T) / 2
    if kind == 'dense-degenerate':
        # Hermitian with the repeated eigenvalues +1, +1, -1, -1, 0.5, 0.5, ... (projected Hamiltonians inherit the ties)
        cplx = True
        q_ = np.linalg.qr(rng.standard_normal((n, n)) + 1j * rng.standard_normal((n, n)))[0]
        ev = np.array(([1.0, 1.0, -1.0, -1.0, 0.5, 0.5] * n)[:n])
        H = (q_ * ev) @ q_.conj().T
        H = (H + H.conj().T) / 2
        return TT(H.reshape(dims + dims)), H
    if kind == 'heisenberg':
        sx = np.array([[0, 1], [1, 0]], dtype=complex); sy = np.array([[0, -1j], [1j, 0]]); sz = np.diag([1.0 + 0j, -1.0])
        H = np.zeros((n, n), dtype=complex)
        for i in range(d - 1):
            for p_ in (sx, sy, sz):
                H += np.kron(np.kron(np.eye(2 ** i), np.kron(p_, p_)), np.eye(2 ** (d - i - 2)))
        H = H / np.linalg.norm(H, 2)
        return TT(H.reshape(dims + dims)), H
    if kind.startswith('dense'):
        H = herm(n); H = 2 * H / np.linalg.norm(H, 2)
        return TT(H.reshape(dims + dims)), H
    # non-interacting: sum_i h_i, built as a TT sum of rank-1 operators
    op = None
    h_same = None
    if kind == 'local-identical':
        cplx = True
        h_same = herm(dims[0]); h_same = h_same / np.linalg.norm(h_same, 2)
    for i in range(d):
        cores = [np.eye(m).reshape(1, m, m, 1) for m in dims]
        hi = herm(dims[i]) if h_same is None else h_same; hi = hi / np.linalg.norm(hi, 2)
        cores[i] = hi.reshape(1, dims[i], dims[i], 1).astype(complex if cplx else float)
        t = TT([c.astype(complex) if cplx else c for c in cores])
        op = t if op is None else op + t
    return op, mat(op)


def run_case(case, seed):
    from scikit_tt.solvers import ode
    _install()
    r = R(case)
    rng = rng_for(case, seed)
    dims, kind, rk, h, nz = case['dims'], case['H'], case['r'], case['h'], case['nz']
    d = len(dims); N = int(np.prod(dims))
    op, H = make_H(rng, dims, kind)
    if case.get('hscale'):
        op = case['hscale'] * op; H = case['hscale'] * H; h = h / case['hscale']
    x0t = tt_from(rand_cores(rng, dims, [1] * d, rk, case.get('x0') != 'real'))
    if case.get('schmidt'):
        from scikit_tt.tensor_train import TT as _TT
        k_ = min(dims)
        qa = np.linalg.qr(rng.standard_normal((dims[0], k_)) + 1j * rng.standard_normal((dims[0], k_)))[0]
        qb = np.linalg.qr(rng.standard_normal((dims[1], k_)) + 1j * rng.standard_normal((dims[1], k_)))[0]
        sv_ = np.array([1.0, 0.5, 1e-3][:k_]) if k_ > 1 else np.array([1.0])
        if k_ == 2:
            sv_ = np.array([1.0, 1e-3])
        x0t = _TT([(qa * sv_).reshape(1, dims[0], 1, k_), qb.T.reshape(k_, dims[1], 1, 1)])
    x0t = (1.0 / x0t.norm()) * x0t
    x0t.ortho_right()
    if case.get('x0') == 'prod-headreal':
        from scikit_tt.tensor_train import TT as _TT2
        cs_ = rand_cores(rng, dims, [1] * d, [1] * (d + 1), 'tail')
        x0t = _TT2([c_ / np.linalg.norm(c_) for c_ in cs_])
    x0 = vec(x0t)
    sO, sX = snap(op), snap(x0t)
    r.nontrivial = d >= 2
    ismax = list(rk) == max_ranks(dims)
    local = kind.startswith('local')
    representable = ismax or local or d == 1
    nsteps = case.get('nsteps', 3)
    exact = [sl.expm(-1j * h * k * H) @ x0 for k in range(nsteps + 1)]
    if nz == 2:
        exact = [e / np.linalg.norm(e) if k > 0 else e for k, e in enumerate(exact)]
    E0 = np.real(np.vdot(x0, H @ x0))
    o1 = ':order1' if d == 1 else ''

    def check_list(key, sol, exact_expected, conserve):
        if not r.true(key + ':length', isinstance(sol, list) and len(sol) == nsteps + 1, 'len %s' % (len(sol) if isinstance(sol, list) else type(sol))):
            return
        r.true(key + ':initial-identity', sol[0] is x0t, 'element 0 is not the initial state')
        for k in range(nsteps + 1):
            mp = meta_problem(sol[k])
            if not r.true(key + ':meta', mp is None, 'state %d: %s' % (k, mp)):
                return
            if not r.true(key + ':dims', list(sol[k].row_dims) == list(dims) and list(sol[k].col_dims) == [1] * d):
                return
            v = vec(sol[k])
            if exact_expected:
                r.close(key + ':exact', v, exact[k], 1e-8, 'state %d of %d (h=%g)' % (k, nsteps, h))
            if conserve:
                r.true(key + ':norm-conserved', abs(np.linalg.norm(v) - 1) <= 1e-8, 'state %d norm %r' % (k, np.linalg.norm(v)))
                r.true(key + ':energy-conserved', abs(np.real(np.vdot(v, H @ v)) - E0) <= 1e-8, 'state %d energy %r vs %r' % (k, np.real(np.vdot(v, H @ v)), E0))

    # one-site TDVP
    key = 'tdvp1site' + o1
    STATE['mon'] = NormMonitor(r, key)
    try:
        with r.op(key + ':call'):
            sol = ode.tdvp1site(op, x0t, h, nsteps, normalize=nz)
            check_list(key, sol, representable, True)
    finally:
        STATE['mon'] = None
    # two-site and hybrid
    if d >= 2:
        for name, f in (('tdvp2site', ode.tdvp2site), ('tdvp', ode.tdvp)):
            for thr, mr in ((0, np.inf), (1e-12, 50), (0, int(max(max_ranks(dims))))):
                key = name
                STATE['mon'] = NormMonitor(r, key) if thr == 0 else None
                try:
                    with r.op(key + ':call'):
                        sol = f(op, x0t, h, nsteps, threshold=thr, max_rank=mr, normalize=nz)
                        # representable: maximal ranks, or non-interacting H (the exact flow keeps the ranks)
                        check_list(key, sol, representable or bool(name == 'tdvp' and case.get('prodfirst') and (mr == np.inf or thr != 0)), False)
                        if isinstance(sol, list) and mr != np.inf:
                            r.true(key + ':rank-cap', all(max(s.ranks) <= mr for s in sol[1:] if meta_problem(s) is None))
                finally:
                    STATE['mon'] = None
        if max(rk) > 1 and nz == 0 and h == 0.05:
            # a rank cap BELOW the ranks of the initial state: whatever the scheme then does to the evolved states, the caller's
            # initial state must stay what it was and must head the returned list
            for name, f in (('tdvp2site', ode.tdvp2site), ('tdvp', ode.tdvp)):
                key = name + ':cap-below-initial-ranks'
                with r.op(key + ':call'):
                    cap_ = max(1, max(rk) - 1)
                    sol = f(op, x0t, h, nsteps, threshold=0, max_rank=cap_, normalize=0)
                    if r.true(key + ':length', isinstance(sol, list) and len(sol) == nsteps + 1):
                        r.true(key + ':initial-identity', sol[0] is x0t)
                        r.true(key + ':initial-unchanged', unchanged(x0t, sX), 'the initial state was modified (ranks %s, were %s)' % (x0t.ranks, rk))
                        r.true(key + ':states-distinct', all(sol[k_] is not sol[0] for k_ in range(1, len(sol))), 'an evolved state is the initial-state object')
        if case.get('schmidt'):
            key = 'tdvp:coarse-threshold-at-maximal-ranks'
            with r.op(key + ':call'):
                sol = ode.tdvp(op, x0t, h, nsteps, threshold=1e-2, max_rank=50, normalize=0)
                check_list(key, sol, True, False)
        # linearity: a tiny-norm state with the default relative threshold must be propagated just as exactly
        if representable and nz == 0:
            sc = 1e-11
            xs = sc * x0t
            for name, f in (('tdvp2site', ode.tdvp2site), ('tdvp', ode.tdvp)):
                with r.op(name + ':scaled:call'):
                    sol = f(op, xs, h, nsteps, threshold=1e-12, max_rank=50, normalize=0)
                    for k in range(1, nsteps + 1):
                        if meta_problem(sol[k]) is None:
                            r.close(name + ':scaled:exact', vec(sol[k]) / sc, exact[k], 1e-8, 'state %d, initial norm %g' % (k, sc))
    elif d == 1:
        for name, f in (('tdvp', ode.tdvp),):
            key = name + o1
            with r.op(key + ':call'):
                sol = f(op, x0t, h, nsteps, threshold=0, max_rank=np.inf, normalize=nz)
                check_list(key, sol, True, False)
    # Krylov (one step), every dimension
    if nz == 0 or True:
        for dim in range(2, min(N, 16) + (3 if N <= 9 else 1)):      # Lanczos without re-orthogonalisation: full-space exactness only claimed for N <= 16; dimensions N+1, N+2 span it as well
            key = 'krylov' + o1
            with r.op(key + ':call'):
                y = ode.krylov(op, x0t, dim, h, threshold=1e-14, max_rank=50, normalize=nz)
                mp = meta_problem(y)
                if r.true(key + ':meta', mp is None, mp) and r.true(key + ':dims', list(y.row_dims) == list(dims)):
                    v = vec(y)
                    r.true(key + ':norm', abs(np.linalg.norm(v) - 1) <= 1e-7, 'dimension %d norm %r' % (dim, np.linalg.norm(v)))
                    if dim >= N:
                        r.close(key + ':exact-full-space', v, exact[1], 1e-7, 'dimension %d (state space %d)' % (dim, N))
            if dim >= N and d >= 2:
                # a rank cap that every state of this space fits in (the largest admissible TT rank) must not change the result
                with r.op(key + ':call'):
                    y = ode.krylov(op, x0t, dim, h, threshold=1e-14, max_rank=int(max(max_ranks(dims))), normalize=nz)
                    if meta_problem(y) is None and list(y.row_dims) == list(dims):
                        r.close(key + ':exact-full-space:admissible-rank-cap', vec(y), exact[1], 1e-7, 'dimension %d, max_rank %d' % (dim, max(max_ranks(dims))))
    r.true('inputs-unchanged', unchanged(op, sO) and unchanged(x0t, sX), 'operator or initial state modified')
    return r
