"""C09 — one-step ODE schemes reproduce their defining recurrences; error estimators; adaptive step-size controller."""
import itertools, math
import numpy as np
from vt.core import (R, rng_for, rand_cores, tt_from, mat, vec, admissible_ranks, max_ranks, snap, unchanged, meta_problem,
                     quiet)

ID = 'C09'
LEVEL = 'exploration'
RULE = ('complete enumeration of order x mode sizes x operator rank x dtype/family (generic real, generic complex, Markov '
        'generator with non-negative state) x EVERY admissible initial-value rank vector x step-size list (constant, '
        'two steps, three varying steps) x base step; per point: explicit Euler, implicit Euler and trapezoidal rule (als/mals '
        'x solve/lu, maximal-rank guess), HOD (orders 2,3,4,6; with/without previous_value; with/without prebuilt op_hod), all '
        'with normalize in {0,2} (and 1 on the Markov family), every state of every trajectory compared with the dense '
        'recurrence; the three error estimators on arbitrary (non-trajectory) lists, also on states of TT rank 56 (above the default rank cap of the integrators); plus the adaptive controller lattice '
        '(second method x solver x normalize x time_end x first step x tolerances) with accept/reject/clamp branch counters. '
        'Non-trivial: varying step sizes, normalisation, complex data, or an initial rank > 1.')
ASSUMPTIONS = ['NumPy recurrences on the matricised operator are the reference', 'operators scaled to spectral norm 1 so that I -/+ hA is well conditioned',
               'inner solves exact: maximal-rank guess, truncation threshold <= 1e-12 (not effective)',
               'normalize=1 only on the Markov family (1-norm of non-negative tensors)']
CHUNK = 4
STEPLISTS = {'const1': [1.0], 'const2': [1.0, 1.0], 'vary3': [1.0, 2.0, 0.5],
             'close3': [1.0, 1.0 + 3e-6, 1.0 + 6e-6],      # consecutive steps that differ only slightly
             'tiny_fast': [1e-8, 8e-8],
             'stiff': [1e7, 1e8]}                          # h*||A|| = 1e6, 1e7: implicit steps with cond(I - hA) of that size                    # tiny steps on a fast operator (operator scaled by 1e8): same h*A


def space(tier):
    q = tier == 'quick'
    return {'orders': [1, 2, 3] if q else [1, 2, 3, 4], 'dims': [2, 3], 'operator ranks': [1, 2], 'families': ['real', 'complex', 'markov'],
            'step lists': STEPLISTS, 'h': [0.1, 0.01], 'normalize': [0, 1, 2], 'hod orders': [2, 3, 4, 6],
            'adaptive': 'second_method x solver x normalize x time_end{0.5,3} x step_size_first{1e-3,1,10} x error_tol{1e-1,1e-3,1e3} x closeness_tol{0.5,0.05,1e3} (the lenient values make an overshooting first step get accepted)'}


def cases(tier):
    q = tier == 'quick'
    for d in ([1, 2, 3] if q else [1, 2, 3, 4]):
        for dims in itertools.product([2, 3], repeat=d):
            if d == 4 and np.prod(dims) > 36:
                continue
            for ro in ((1, 2) if d > 1 else (1,)):
                for fam in ('real', 'complex', 'markov'):
                    for rx in admissible_ranks(list(dims)):
                        for sl in (STEPLISTS if not q else ('vary3', 'close3', 'tiny_fast')):
                            for h in ((0.1, 0.01) if not q else (0.1,)):
                                yield {'kind': 'schemes', 'dims': list(dims), 'ro': ro, 'fam': fam, 'rx': rx, 'steps': sl, 'h': h}
    # exactly one step
    for d in (1, 2, 3):
        for dims in itertools.product([2, 3], repeat=d):
            for fam in ('real', 'markov'):
                for rx in admissible_ranks(list(dims)):
                    yield {'kind': 'schemes', 'dims': list(dims), 'ro': min(2, d), 'fam': fam, 'rx': rx, 'steps': 'const1', 'h': 0.1}
    # stiff implicit steps on Markov generators (I - hG is a non-singular M-matrix of condition ~ h*||G||)
    for d in (1, 2, 3):
        for dims in itertools.product([2, 3], repeat=d):
            for rx in admissible_ranks(list(dims)):
                yield {'kind': 'schemes', 'dims': list(dims), 'ro': min(2, d), 'fam': 'markov', 'rx': rx, 'steps': 'stiff', 'h': 0.1}
    # mixed dtypes: complex operator (complex entries only from its second core on) with real states and guesses ('cop'),
    # real operator with complex states ('cx')
    for d in (1, 2, 3):
        for dims in itertools.product([2, 3], repeat=d):
            for fam in ('cop', 'cx'):
                for rx in admissible_ranks(list(dims)):
                    yield {'kind': 'schemes', 'dims': list(dims), 'ro': min(2, d), 'fam': fam, 'rx': rx, 'steps': 'vary3', 'h': 0.1}
    # state spaces with a size-1 mode among larger ones (every normalisation, Markov and generic operators)
    for dims in ([1, 3], [3, 1], [2, 1, 3], [1, 3, 2], [2, 3, 1]):
        for ro in (1, 2):
            for fam in ('real', 'markov'):
                for rx in admissible_ranks(list(dims)):
                    yield {'kind': 'schemes', 'dims': list(dims), 'ro': ro, 'fam': fam, 'rx': rx, 'steps': 'vary3', 'h': 0.1}
    for cplx in (False, True):
        yield {'kind': 'bigrank', 'dims': [56, 56], 'c': cplx}
    # unbalanced mode sizes with the rank cap set to the largest admissible TT rank: every state fits, so nothing may be lost
    for dims in ([8, 2], [2, 8], [16, 2, 2], [2, 2, 16]):
        for ro in (2, 3):
            for cplx in (False, True):
                yield {'kind': 'tightcap', 'dims': dims, 'ro': ro, 'c': cplx}
    for dims in ([2, 2], [3, 2], [2, 2, 2]):
        for sm in ('two_step_Euler', 'trapezoidal_rule'):
            for solver in ('solve', 'lu'):
                for nz in (1, 2):
                    for te in (0.5, 3.0):
                        for s1 in (1e-3, 1.0, 10.0):
                            for et in (1e-1, 1e-3, 1e3):
                                for ct in (0.5, 0.05, 1e3):
                                    yield {'kind': 'adaptive', 'dims': dims, 'sm': sm, 'solver': solver, 'nz': nz, 'te': te, 's1': s1, 'et': et, 'ct': ct}
            # the remaining controller parameters (bounds on the step, growth and safety factors, stopping by closeness), at two base
            # points: a lenient one whose steps are accepted and grow, and a strict one with rejections
            for et, ct, s1 in ((1e3, 1e3, 1.0), (1e-3, 0.05, 1.0)):
                for smin in (1e-14, 0.3):
                    for smax in (10, 0.05):
                        for cmin in (1e-3, 10.0):
                            for fmax in (2, 10):
                                for fsafe in (0.9, 0.5):
                                    yield {'kind': 'adaptive', 'dims': dims, 'sm': sm, 'solver': 'solve', 'nz': 1, 'te': 3.0, 's1': s1, 'et': et, 'ct': ct,
                                           'ctl': {'step_size_min': smin, 'step_size_max': smax, 'closeness_min': cmin, 'factor_max': fmax, 'factor_safe': fsafe}}


def make_op(rng, dims, ro, fam):
    from scikit_tt.tensor_train import TT
    d = len(dims); n = int(np.prod(dims))
    if fam == 'markov':
        # sum of local generators (rank <= d) or a dense generator
        G = rng.random((n, n)) + 0.05
        np.fill_diagonal(G, 0)
        G = G - np.diag(G.sum(axis=0))
        G = G / np.linalg.norm(G, 2)
        return TT(G.reshape(dims + dims))
    op = tt_from(rand_cores(rng, dims, dims, [1] + [ro] * (d - 1) + [1], {'complex': True, 'cop': 'tail' if d > 1 else True}.get(fam, False)))
    return (1.0 / np.linalg.norm(mat(op), 2)) * op


def normalise(x, nz):
    if nz == 1:
        return x / np.sum(np.abs(x))
    if nz == 2:
        return x / np.linalg.norm(x)
    return x


def sinh_series(A, h, m):
    """2 * sum_{k=1..m} (hA)^(2k-1)/(2k-1)!"""
    out = np.zeros_like(A, dtype=complex if np.iscomplexobj(A) else float)
    P = h * A
    hA2 = (h * A) @ (h * A)
    for k in range(1, m + 1):
        out = out + 2.0 / math.factorial(2 * k - 1) * P
        P = P @ hA2
    return out


def run_case(case, seed):
    r = R(case)
    rng = rng_for(case, seed)
    with quiet():
        if case['kind'] == 'schemes':
            return run_schemes(case, r, rng)
        if case['kind'] == 'bigrank':
            return run_bigrank(case, r, rng)
        if case['kind'] == 'tightcap':
            return run_tightcap(case, r, rng)
        return run_adaptive(case, r, rng)


def run_tightcap(case, r, rng):
    from scikit_tt.solvers import ode
    dims, ro, c = case['dims'], case['ro'], case['c']
    d = len(dims); n = int(np.prod(dims))
    r.nontrivial = True
    op = make_op(rng, dims, ro, 'complex' if c else 'real')
    A = mat(op)
    cap = int(max(max_ranks(dims)))
    x0t = tt_from(rand_cores(rng, dims, [1] * d, max_ranks(dims), c))
    x0 = vec(x0t)
    I = np.eye(n)
    steps = [0.1, 0.2, 0.05]
    want = [x0]
    for hk in steps:
        want.append((I + hk * A) @ want[-1])
    with r.op('explicit_euler:tight-cap:call'):
        sol = ode.explicit_euler(op, x0t, list(steps), threshold=0, max_rank=cap, normalize=0, progress=False)
        compare_traj(r, 'explicit_euler:tight-cap', sol, want, x0t, dims)
    # linearity: a state of tiny norm (1e-11) under the implicit schemes with the default relative threshold of the inner solver
    guess = tt_from(rand_cores(rng, dims, [1] * d, max_ranks(dims), c))
    wi = [x0]; wt = [x0]
    for hk in steps:
        wi.append(np.linalg.solve(I - hk * A, wi[-1]))
        wt.append(np.linalg.solve(I - 0.5 * hk * A, (I + 0.5 * hk * A) @ wt[-1]))
    # (also 1e-15: ||A x|| itself falls below the default threshold value 1e-12 -- a small state is not a stationary state)
    for tsolver, sc_ in (('als', 1e-11), ('mals', 1e-11), ('als', 1e-15), ('mals', 1e-15)):
        xt = sc_ * x0t
        with r.op('implicit_euler:tiny-state:call'):
            sol = ode.implicit_euler(op, xt, guess, list(steps), tt_solver=tsolver, normalize=0, progress=False)
            for k_ in range(1, len(sol)):
                if meta_problem(sol[k_]) is None:
                    r.close('implicit_euler:tiny-state:%s' % tsolver, vec(sol[k_]) / sc_, wi[k_], 1e-7, 'state %d, initial norm %g' % (k_, sc_))
        with r.op('trapezoidal_rule:tiny-state:call'):
            sol = ode.trapezoidal_rule(op, xt, guess, list(steps), tt_solver=tsolver, normalize=0, progress=False)
            for k_ in range(1, len(sol)):
                if meta_problem(sol[k_]) is None:
                    r.close('trapezoidal_rule:tiny-state:%s' % tsolver, vec(sol[k_]) / sc_, wt[k_], 1e-7, 'state %d, initial norm %g' % (k_, sc_))
    h = 0.1
    S = sinh_series(A, h, 1)
    prev = x0 - sinh_series(A, h / 2, 1) @ ((I - 0.5 * h * A) @ x0)
    want = [x0]
    for k in range(3):
        p = prev if k == 0 else want[k - 1]
        want.append(p + S @ want[k])
    with r.op('hod:tight-cap:call'):
        sol = ode.hod(op, x0t, h, 3, order=2, threshold=0, max_rank=cap, normalize=0, progress=False)
        compare_traj(r, 'hod:tight-cap', sol, want, x0t, dims, 1e-8)
    return r


def run_bigrank(case, r, rng):
    """the error estimators take no rank cap: they must return the exact defect also for states of TT rank > 50"""
    from scikit_tt.tensor_train import TT
    from scikit_tt.solvers import ode
    dims = case['dims']; n = dims[0]
    c = case['c']
    r.nontrivial = True

    def rnd(shape):
        a = rng.standard_normal(shape)
        return a + 1j * rng.standard_normal(shape) if c else a
    A1, A2 = rnd((n, n)) / n, rnd((n, n)) / n
    op = TT([A1.reshape(1, n, n, 1), A2.reshape(1, n, n, 1)])             # Kronecker-structured operator (rank 1)
    A = np.kron(A1, A2)
    xs = [TT([rnd((1, n, 1, n)), rnd((n, n, 1, 1)) / n]) for _ in range(3)]      # full TT rank 56 > 50
    xv = [np.einsum('aibc,cjde->ij', t.cores[0], t.cores[1]).reshape(-1) for t in xs]
    hs = [0.1, 0.05]
    I = None
    we = [np.linalg.norm(xv[k + 1] - (xv[k] + hs[k] * A @ xv[k])) / np.linalg.norm(xv[k]) for k in range(2)]
    wi = [np.linalg.norm(xv[k + 1] - hs[k] * A @ xv[k + 1] - xv[k]) / np.linalg.norm(xv[k]) for k in range(2)]
    wt = [np.linalg.norm(xv[k + 1] - 0.5 * hs[k] * A @ xv[k + 1] - xv[k] - 0.5 * hs[k] * A @ xv[k]) / np.linalg.norm(xv[k] + 0.5 * hs[k] * A @ xv[k]) for k in range(2)]
    for name, f, w in (('errors_expl_euler', ode.errors_expl_euler, we), ('errors_impl_euler', ode.errors_impl_euler, wi), ('errors_trapezoidal', ode.errors_trapezoidal, wt)):
        with r.op(name + ':large-rank:call'):
            got = f(op, xs, list(hs))
            r.close(name + ':large-rank:value', np.asarray(got, dtype=float), np.asarray(w), 1e-8, 'states of TT rank %d' % n)
    return r


def compare_traj(r, key, sol, want, x0obj, dims, tol=1e-8):
    d = len(dims)
    if not r.true(key + ':length', isinstance(sol, list) and len(sol) == len(want), 'len %s expected %d' % (len(sol) if isinstance(sol, list) else type(sol), len(want))):
        return
    r.true(key + ':initial-identity', sol[0] is x0obj, 'element 0 is not the initial value object')
    for k in range(len(want)):
        mp = meta_problem(sol[k])
        if not r.true(key + ':meta', mp is None, 'state %d: %s' % (k, mp)):
            return
        if not r.true(key + ':dims', list(sol[k].row_dims) == list(dims) and list(sol[k].col_dims) == [1] * d, 'state %d' % k):
            return
        r.close(key + ':state', vec(sol[k]), want[k], tol, 'state %d of %d' % (k, len(want) - 1))


def run_schemes(case, r, rng):
    from scikit_tt.tensor_train import TT
    import scikit_tt.tensor_train as tt
    from scikit_tt.solvers import ode
    dims, fam, rx, h = case['dims'], case['fam'], case['rx'], case['h']
    d = len(dims); n = int(np.prod(dims))
    steps = [h * s for s in STEPLISTS[case['steps']]]
    op = make_op(rng, dims, case['ro'], fam)
    if case['steps'] == 'tiny_fast':
        op = 1e8 * op
        h = steps[0]            # HOD (constant step) then runs with h*A of the usual size as well
    A = mat(op)
    x0t = tt_from(rand_cores(rng, dims, [1] * d, rx, fam in ('complex', 'cx'), 'nonneg' if fam == 'markov' else 'gauss'))
    x0 = vec(x0t)
    I = np.eye(n)
    sO, sX = snap(op), snap(x0t)
    r.nontrivial = case['steps'] != 'const1' or fam != 'real' or max(rx) > 1
    nzs = [0, 2] + ([1] if fam == 'markov' else [])
    o1 = ':order1' if d == 1 else ''
    stiff = case['steps'] == 'stiff'
    ttol = 1e-5 if stiff else 1e-8      # rounding grows with cond(I - hA) ~ 1e7 on the stiff list

    for nz in nzs:
        # ---- explicit Euler
        want = [x0]
        for hk in steps:
            want.append(normalise((I + hk * A) @ want[-1], nz))
        for thr in (() if stiff else (0, 1e-12)):     # the stiff list is for the implicit Euler scheme only
            with r.op('explicit_euler%s:call' % o1):
                sl_ = list(steps); sol = ode.explicit_euler(op, x0t, sl_, threshold=thr, max_rank=50, normalize=nz, progress=False)
                r.true('explicit_euler:step-list-unchanged', sl_ == list(steps), 'step_sizes modified')
                compare_traj(r, 'explicit_euler%s' % o1, sol, want, x0t, dims)
                if nz:
                    r.true('explicit_euler:unit-norm', all(abs(s.norm(p=nz) - 1) <= 1e-9 for s in sol[1:]), 'normalize=%d' % nz)
        # ---- implicit Euler / trapezoidal rule
        wi = [x0]; wt = [x0]
        for hk in steps:
            wi.append(normalise(np.linalg.solve(I - hk * A, wi[-1]), nz))
            wt.append(normalise(np.linalg.solve(I - 0.5 * hk * A, (I + 0.5 * hk * A) @ wt[-1]), nz))
        for tsolver in (('als', 'mals') if d >= 2 else ('als',)):
            for msolver in ('solve', 'lu'):
                guess = tt_from(rand_cores(rng, dims, [1] * d, max_ranks(dims), fam in ('complex', 'cx')))
                sG = snap(guess)
                kw = dict(tt_solver=tsolver, micro_solver=msolver, normalize=nz, progress=False, threshold=1e-14, max_rank=np.inf)
                with r.op('implicit_euler%s:call' % o1):
                    sl_ = list(steps); sol = ode.implicit_euler(op, x0t, guess, sl_, **kw)
                    r.true('implicit_euler:step-list-unchanged', sl_ == list(steps), 'step_sizes modified')
                    compare_traj(r, 'implicit_euler%s:%s' % (o1, tsolver), sol, wi, x0t, dims, ttol)
                    if nz:
                        r.true('implicit_euler:unit-norm', all(abs(s.norm(p=nz) - 1) <= 1e-9 for s in sol[1:]), 'normalize=%d' % nz)
                if stiff:
                    continue        # (I - hA/2)^-1 (I + hA/2) ~ -I at h*||A|| = 1e7: cancellation, not a defect of the scheme
                with r.op('trapezoidal_rule%s:call' % o1):
                    sl_ = list(steps); sol = ode.trapezoidal_rule(op, x0t, guess, sl_, **kw)
                    r.true('trapezoidal_rule:step-list-unchanged', sl_ == list(steps), 'step_sizes modified')
                    compare_traj(r, 'trapezoidal_rule%s:%s' % (o1, tsolver), sol, wt, x0t, dims, ttol)
                r.true('implicit:guess-unchanged', unchanged(guess, sG), 'initial guess modified')
        # ---- HOD (constant step); the scheme is not positivity preserving, so the signed "1-norm" of the library is
        # outside its documented domain (non-negative entries) there: normalize in {0, 2} only
        nsteps = len(steps)
        # TT ranks of the series operator grow like rank(A)^(order-1): order 6 only for rank-1 operators, the dense-converted
        # Markov generators (large operator ranks) are not propagated by HOD at all (HOD is documented for operator = -iH)
        hod_orders = () if (nz == 1 or fam == 'markov') else ((2, 3, 4, 6) if case['ro'] == 1 else (2, 3, 4))
        for order in hod_orders:
            m = (order + (order % 2)) // 2
            S = sinh_series(A, h, m)
            for use_prev in (False, True):
                for use_op in (False, True):
                    if use_prev:
                        pt = tt_from(rand_cores(rng, dims, [1] * d, rx, fam in ('complex', 'cx'), 'nonneg' if fam == 'markov' else 'gauss'))
                        sP = snap(pt)
                        prev = vec(pt)
                    else:
                        half = (I - 0.5 * h * A) @ x0
                        prev = x0 - sinh_series(A, h / 2, m) @ half
                    prev = normalise(prev, nz)
                    want = [x0]
                    for k in range(nsteps):
                        p = prev if k == 0 else want[k - 1]
                        want.append(normalise(p + S @ want[k], nz))
                    kw = dict(order=order, threshold=1e-14, max_rank=50, normalize=nz, progress=False)
                    if use_prev:
                        kw['previous_value'] = pt
                    if use_op:
                        kw['op_hod'] = TT(np.array(S).reshape(dims + dims))
                        sH = snap(kw['op_hod'])
                    with r.op('hod%s:call' % o1):
                        sol = ode.hod(op, x0t, h, nsteps, **kw)
                        compare_traj(r, 'hod%s%s%s' % (o1, ':prev' if use_prev else '', ':op' if use_op else ''), sol, want, x0t, dims, 1e-8)
                    if use_prev:
                        r.true('hod:previous_value-unchanged', unchanged(pt, sP), 'previous_value modified')
                    if use_op:
                        r.true('hod:op_hod-unchanged', unchanged(kw['op_hod'], sH), 'op_hod modified')
            # history: the SAME operator object again with half the step size (a refinement study)
            hh = h / 2
            S2 = sinh_series(A, hh, m)
            prev = normalise(x0 - sinh_series(A, hh / 2, m) @ ((I - 0.5 * hh * A) @ x0), nz)
            want = [x0]
            for k in range(nsteps):
                p = prev if k == 0 else want[k - 1]
                want.append(normalise(p + S2 @ want[k], nz))
            with r.op('hod%s:call' % o1):
                sol = ode.hod(op, x0t, hh, nsteps, order=order, threshold=1e-14, max_rank=50, normalize=nz, progress=False)
                compare_traj(r, 'hod%s:second-step-size' % o1, sol, want, x0t, dims, 1e-8)
    if stiff:
        r.true('schemes:inputs-unchanged', unchanged(op, sO) and unchanged(x0t, sX), 'operator or initial value modified')
        return r
    # ---- error estimators on arbitrary lists
    pool = [x0t] + [tt_from(rand_cores(rng, dims, [1] * d, rr, fam in ('complex', 'cx'))) for rr in (rx, [1] * (d + 1))]
    pv = [vec(p) for p in pool]
    for idx in list(itertools.permutations(range(3), 2)) + list(itertools.permutations(range(3), 3)):
        lst = [pool[i] for i in idx]; lv = [pv[i] for i in idx]
        hs = steps[:len(lst) - 1] if len(steps) >= len(lst) - 1 else (steps * 3)[:len(lst) - 1]
        we = [np.linalg.norm(lv[k + 1] - (I + hs[k] * A) @ lv[k]) / np.linalg.norm(lv[k]) for k in range(len(lst) - 1)]
        wi_ = [np.linalg.norm((I - hs[k] * A) @ lv[k + 1] - lv[k]) / np.linalg.norm(lv[k]) for k in range(len(lst) - 1)]
        wt_ = [np.linalg.norm((I - 0.5 * hs[k] * A) @ lv[k + 1] - (I + 0.5 * hs[k] * A) @ lv[k]) /
               np.linalg.norm((I + 0.5 * hs[k] * A) @ lv[k]) for k in range(len(lst) - 1)]
        for name, f, w in (('errors_expl_euler', ode.errors_expl_euler, we), ('errors_impl_euler', ode.errors_impl_euler, wi_),
                           ('errors_trapezoidal', ode.errors_trapezoidal, wt_)):
            with r.op(name + o1 + ':call'):
                hl_ = list(hs); ll_ = list(lst)
                got = f(op, ll_, hl_)
                r.true(name + ':argument-lists-unchanged', hl_ == list(hs) and len(ll_) == len(lst) and all(a_ is b_ for a_, b_ in zip(ll_, lst)), 'solution or step list modified')
                r.close(name + o1 + ':value', np.asarray(got, dtype=float), np.asarray(w), 1e-8)
    r.true('schemes:inputs-unchanged', unchanged(op, sO) and unchanged(x0t, sX), 'operator or initial value modified')
    return r


def run_adaptive(case, r, rng):
    from scikit_tt.solvers import ode, sle
    dims = case['dims']; d = len(dims)
    op = make_op(rng, dims, 1, 'markov')
    op = 3.0 * op
    x0t = tt_from(rand_cores(rng, dims, [1] * d, [1] * (d + 1), False, 'nonneg'))
    x0t = (1.0 / x0t.norm(p=1)) * x0t
    guess = tt_from(rand_cores(rng, dims, [1] * d, max_ranks(dims), False, 'nonneg'))
    sO, sX, sG = snap(op), snap(x0t), snap(guess)
    calls = {'n': 0}
    orig = sle.als

    def counting(*a, **k):
        calls['n'] += 1
        return orig(*a, **k)
    sle.als = counting
    r.nontrivial = True
    try:
        with r.op('adaptive:call'):
            sol, ts = ode.adaptive_step_size(op, x0t, guess, case['te'], step_size_first=case['s1'], repeats=1, solver=case['solver'],
                                             error_tol=case['et'], closeness_tol=case['ct'], second_method=case['sm'],
                                             normalize=case['nz'], progress=False, **case.get('ctl', {}))
            per = 3 if case['sm'] == 'two_step_Euler' else 2
            iters = calls['n'] // per
            acc = len(ts) - 1
            r.count('adaptive_accepted_steps', acc); r.count('adaptive_rejected_steps', iters - acc)
            r.count('adaptive_runs_with_rejection', int(iters > acc)); r.count('adaptive_runs_reaching_time_end', int(abs(ts[-1] - case['te']) < 1e-12))
            r.outcome = 'acc%s-rej%s-end%s' % (min(acc, 3), min(iters - acc, 2), int(abs(ts[-1] - case['te']) < 1e-12))
            r.true('adaptive:lengths', len(sol) == len(ts), '%d states, %d time points' % (len(sol), len(ts)))
            r.true('adaptive:t0', ts[0] == 0)
            r.true('adaptive:strictly-increasing', all(b > a for a, b in zip(ts[:-1], ts[1:])), 'time steps %s' % ts[:6])
            r.true('adaptive:not-beyond-end', ts[-1] <= case['te'] + 0.0, 'last %r end %r' % (ts[-1], case['te']))
            r.true('adaptive:initial-identity', sol[0] is x0t)
            for kk, s in enumerate(sol):
                mp = meta_problem(s)
                if r.true('adaptive:meta', mp is None, mp) and kk > 0:
                    v = vec(s)
                    if case['nz'] == 1 and np.min(np.real(v)) < -1e-12:
                        r.count('adaptive_state_not_nonnegative_1norm_skipped')      # the signed "1-norm" is documented for non-negative tensors only
                        continue
                    nrm = np.sum(np.abs(v)) if case['nz'] == 1 else np.linalg.norm(v)
                    r.true('adaptive:unit-norm', abs(nrm - 1) <= 1e-9, 'accepted state %d has %d-norm %r (second method %s)' % (kk, case['nz'], nrm, case['sm']))
    finally:
        sle.als = orig
    r.true('adaptive:inputs-unchanged', unchanged(op, sO) and unchanged(x0t, sX) and unchanged(guess, sG), 'operator, initial value or guess modified')
    return r
