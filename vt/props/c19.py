"""C19 — generator EDMD: product-rule evaluation of the Kolmogorov generator and the reduced matrix match the dense ones."""
import itertools
import numpy as np
from vt.core import R, rng_for, quiet
from vt.props.c15 import NREP

ID = 'C19'
LEVEL = 'exploration'
RULE = ('evaluators: complete enumeration of state dimension {1,2,3} x diffusion column count {1,2,3} (square and non-square) x '
        'product basis (2-3 modes x 1-3 twice-differentiable functions; bundled one-coordinate families, and a user-defined function of two coordinates with mixed second derivatives) and, per point, ALL index tuples s and ALL diffusion '
        'columns i at three sample points, against b.grad f + 1/2 a:Hess f and grad f . sigma_i with the gradient of the PRODUCT '
        'obtained by complex-step differentiation and its Hessian by central differences of that gradient. amuset_hosvd: '
        'complete enumeration of d {1,2} x d2 {1,2,3} x m {4,6,9} x basis x drift {given, None} x reweight {None, positive} x '
        'threshold kind {absolute, relative} x max_rank {inf, non-binding cap} x num_eigvals x return option, plus a generator of magnitude 1e-10 and integer-dtype data, against the dense '
        'projected generator matrix from an SVD of the (reweighted) transformed data matrix with the same cut. Non-trivial: '
        'every case.')
ASSUMPTIONS = ['complex-step gradient / central-difference Hessian of the product function are the reference (tolerance 1e-6)',
               'tiny truncation thresholds (1e-10) in a spectral gap; eigenvalues compared as multisets',
               'max_rank caps are chosen non-binding for the dense comparison']
CHUNK = 8


def space(tier):
    return {'d': [1, 2, 3], 'd2': [1, 2, 3], 'modes': [2, 3], 'functions per mode': [1, 2, 3], 'amuset m': [4, 6, 9], 'b': ['given', None],
            'reweight': [None, 'positive'], 'threshold': ['abs 1e-10', 'rel 1e-10'], 'return_option': ['eigenfunctionevals', 'eigenvectors', 'eigentensors']}


def funcs(coord):
    import scikit_tt.data_driven.transform as tdt
    return [tdt.Identity(coord), tdt.Monomial(coord, 2, prefactor=0.5), tdt.Sin(coord, 1.0), tdt.Cos(coord, 0.5), tdt.GaussFunction(coord, 0.2, 0.7),
            tdt.ConstantFunction(coord)]


_CPL = {}


def coupled(c0, c1):
    """a user-defined basis function of TWO coordinates, sin(x_c0 + 0.5 x_c1), written against the library's Function base
    class (the bundled families all depend on one coordinate, so mixed second derivatives only arise this way)"""
    import scikit_tt.data_driven.transform as tdt
    if 'cls' not in _CPL:
        class Coupled(tdt.Function):
            def __init__(self, c0, c1, dimension=None):
                super(Coupled, self).__init__(dimension)
                self.c0, self.c1 = c0, c1

            def _w(self, k):
                return (1.0 if k == self.c0 else 0.0) + (0.5 if k == self.c1 else 0.0)

            def __call__(self, t):
                self.check_call_input(t)
                return np.sin(t[self.c0] + 0.5 * t[self.c1])

            def partial(self, t, direction):
                self.check_partial_input(t, direction)
                return self._w(direction) * np.cos(t[self.c0] + 0.5 * t[self.c1])

            def partial2(self, t, direction1, direction2):
                self.check_partial2_input(t, direction1, direction2)
                return -self._w(direction1) * self._w(direction2) * np.sin(t[self.c0] + 0.5 * t[self.c1])
        _CPL['cls'] = Coupled
    return _CPL['cls'](c0, c1)


def make_basis(ws, d, cpl=False, same=False):
    basis = [[funcs((kk + j) % d)[(s + j) % NREP] for j in range(n)] for kk, (s, n) in enumerate(ws)]
    if same:
        basis = [basis[0]] * len(ws)         # ONE list of Function objects used for every mode
    if cpl:
        basis[-1][0] = coupled(0, 1)         # the last mode starts with a function of coordinates 0 and 1
        if len(basis[0]) > 1:
            basis[0][-1] = coupled(1, 0)
    return basis


def cases(tier):
    q = tier == 'quick'
    wins = [(0, 1), (1, 2), (2, 3), (4, 2), (3, 3)]
    for d in (1, 2, 3):
        for d2 in (1, 2, 3):
            for p in (2, 3):
                for ws in itertools.product(*([wins] * p)):
                    if p == 3 and q and sum(w[1] for w in ws) > 6:
                        continue
                    yield {'k': 'gen', 'd': d, 'd2': d2, 'ws': [list(w) for w in ws]}
                    if d >= 2 and p == 2:
                        yield {'k': 'gen', 'd': d, 'd2': d2, 'ws': [list(w) for w in ws], 'cpl': True}
                    if ws[0][1] >= 2 and all(w == ws[0] for w in ws):
                        yield {'k': 'gen', 'd': d, 'd2': d2, 'ws': [list(w) for w in ws], 'same': True}
    if q:
        # more coordinates than modes (d = 3, two modes), with and without reweighting
        for d2 in (1, 3):
            for m in (6, 9):
                for ws in ([(0, 2), (2, 2)], [(1, 2), (3, 3)]):
                    for bg in (True, False):
                        for rw in (False, True):
                            for ro in ('eigenfunctionevals', 'eigentensors'):
                                yield {'k': 'amuset', 'd': 3, 'd2': d2, 'm': m, 'ws': [list(w) for w in ws], 'b': bg, 'rw': rw,
                                       'rel': False, 'mr': 'inf', 'nev': 'inf', 'ro': ro}
    for d in ((1, 2) if q else (1, 2, 3)):
        for d2 in (1, 2, 3):
            for m in ((4, 6, 9) if q else (4, 6, 9, 12)):
                for ws in ([(0, 2), (2, 2)], [(1, 2), (3, 3)], [(0, 2), (2, 2), (4, 2)]):
                    for bg in (True, False):
                        for rw in (False, True):
                            for rel in (False, True):
                                for mr in ('inf', 'cap'):
                                    for nev in ('inf', 2):
                                        for ro in ('eigenfunctionevals', 'eigenvectors', 'eigentensors'):
                                            if (mr == 'cap' or nev == 2 or rel) and ro != 'eigenfunctionevals':
                                                continue
                                            yield {'k': 'amuset', 'd': d, 'd2': d2, 'm': m, 'ws': [list(w) for w in ws], 'b': bg, 'rw': rw,
                                                   'rel': rel, 'mr': mr, 'nev': nev, 'ro': ro}
                                            if mr == 'inf' and nev == 'inf' and ro == 'eigenfunctionevals':
                                                # diffusion switched off at every other snapshot (multiplicative noise that vanishes in
                                                # part of the domain): those snapshots still carry drift information
                                                yield {'k': 'amuset', 'd': d, 'd2': d2, 'm': m, 'ws': [list(w) for w in ws], 'b': bg, 'rw': rw,
                                                       'rel': rel, 'mr': mr, 'nev': nev, 'ro': ro, 'sigzero': True}
                            if ws[0][1] == 2 and len(ws) == 2 and m >= 6:
                                # the same list object (same Function objects) in every mode
                                for ro in ('eigenfunctionevals', 'eigentensors'):
                                    yield {'k': 'amuset', 'd': d, 'd2': d2, 'm': m, 'ws': [list(ws[0]), list(ws[0])], 'b': bg, 'rw': rw,
                                           'rel': False, 'mr': 'inf', 'nev': 'inf', 'ro': ro, 'same': True}
                            if bg:
                                # the drift given explicitly as an all-zero array
                                for nv in ('inf', 2):
                                    yield {'k': 'amuset', 'd': d, 'd2': d2, 'm': m, 'ws': [list(w) for w in ws], 'b': 'zero', 'rw': rw,
                                           'rel': False, 'mr': 'inf', 'nev': nv, 'ro': 'eigenfunctionevals'}
                            if d >= 2:
                                # a user-defined basis function of two coordinates (mixed second derivatives x correlated diffusion)
                                for ro in ('eigenfunctionevals', 'eigentensors'):
                                    yield {'k': 'amuset', 'd': d, 'd2': d2, 'm': m, 'ws': [list(w) for w in ws], 'b': bg, 'rw': rw,
                                           'rel': False, 'mr': 'inf', 'nev': 'inf', 'ro': ro, 'cpl': True}
                            # a generator of tiny magnitude (drift and diffusion covariance scaled by 1e-10) and integer-dtype data
                            for var in ('tiny', 'intdata'):
                                yield {'k': 'amuset', 'd': d, 'd2': d2, 'm': m, 'ws': [list(w) for w in ws], 'b': bg, 'rw': rw,
                                       'rel': False, 'mr': 'inf', 'nev': 'inf', 'ro': 'eigenfunctionevals', 'var': var}
                            # thresholds that really cut the spectrum of Psi(X) (absolute and relative), only the last unfolding
                            for rel in (False, True):
                                for lvl in ((0.3, 0.1, 0.03, 0.01) if rel else (1.0, 0.3, 0.1, 0.03)):
                                    yield {'k': 'amuset', 'd': d, 'd2': d2, 'm': m, 'ws': [list(w) for w in ws], 'b': bg, 'rw': rw,
                                           'rel': rel, 'mr': 'inf', 'nev': 'inf', 'ro': 'eigenfunctionevals', 'thr': lvl}


def prod_f(basis, s, x):
    out = 1.0
    for k in range(len(s)):
        out = out * basis[k][s[k]](x)
    return out


def grad_cs(basis, s, x):
    d = len(x); g = np.zeros(d)
    for c in range(d):
        z = x.astype(complex); z[c] += 1e-30j
        g[c] = np.imag(prod_f(basis, s, z)) / 1e-30
    return g


def hess_fd(basis, s, x, h=1e-5):
    d = len(x); H = np.zeros((d, d))
    for c in range(d):
        e = np.zeros(d); e[c] = h
        H[:, c] = (grad_cs(basis, s, x + e) - grad_cs(basis, s, x - e)) / (2 * h)
    return 0.5 * (H + H.T)


def gen_oracle(basis, s, x, b, sigma):
    a = sigma @ sigma.T
    return float(b @ grad_cs(basis, s, x) + 0.5 * np.sum(a * hess_fd(basis, s, x)))


def run_case(case, seed):
    from scikit_tt.data_driven import tgedmd
    r = R(case)
    rng = rng_for(case, seed)
    r.nontrivial = True
    d, d2 = case['d'], case['d2']
    basis = make_basis(case['ws'], d, case.get('cpl', False), case.get('same', False))
    n = [len(bb) for bb in basis]
    sq = 'square' if d == d2 else 'nonsquare'
    if case['k'] == 'gen':
        for _ in range(3):
            x = rng.uniform(-1.2, 1.2, d); b = rng.standard_normal(d); sigma = rng.standard_normal((d, d2))
            for s in itertools.product(*[range(k) for k in n]):
                with r.op('generator_on_product:%s:call' % sq):
                    got = tgedmd.generator_on_product(basis, tuple(s), x, b, sigma)
                    want = gen_oracle(basis, s, x, b, sigma)
                    r.true('generator_on_product:%s:value' % sq, abs(got - want) <= 1e-6 * max(1.0, abs(want)), 's=%s got %r want %r' % (s, got, want))
                g = grad_cs(basis, s, x)
                for i in range(d2):
                    with r.op('generator_on_product_reversible:%s:call' % sq):
                        got = tgedmd.generator_on_product_reversible(basis, tuple(s), i, x, sigma)
                        want = float(g @ sigma[:, i])
                        r.true('generator_on_product_reversible:%s:value' % sq, abs(got - want) <= 1e-10 * max(1.0, abs(want)), 's=%s i=%d got %r want %r' % (s, i, got, want))
        return r
    # ---- amuset_hosvd
    m = case['m']
    x = rng.uniform(-1.2, 1.2, (d, m))
    if case.get('var') == 'intdata':
        x = rng.integers(-2, 3, (d, m)) + 5 * np.arange(m)[None, :] * (np.arange(d)[:, None] == 0)     # integer dtype, distinct snapshots
    x0 = x.copy()
    gscale = 1e-10 if case.get('var') == 'tiny' else 1.0
    sigma = np.sqrt(gscale) * rng.standard_normal((d, d2, m))
    if case.get('sigzero'):
        sigma[:, :, ::2] = 0.0
    s0 = sigma.copy()
    b = gscale * rng.standard_normal((d, m)) if case['b'] else None
    if case['b'] == 'zero':
        b = np.zeros((d, m))            # a driftless diffusion given explicitly: still the non-reversible estimator
    b0 = None if b is None else b.copy()
    w = rng.uniform(0.5, 2.0, m) if case['rw'] else None
    w0 = None if w is None else w.copy()
    N = int(np.prod(n))
    idxs = list(itertools.product(*[range(k) for k in n]))
    Psi = np.array([[prod_f(basis, s, x[:, l]) for l in range(m)] for s in idxs])          # N x m
    ww = np.ones(m) if w is None else w
    Pw = Psi * np.sqrt(ww)[None, :]
    U, S, Vt = np.linalg.svd(Pw, full_matrices=False)
    thr = case.get('thr', 1e-10)
    rel = S / S[0]
    if 'thr' not in case:
        if np.any((rel > 1e-13) & (rel < 1e-7)) or np.any((S > 1e-13) & (S < 1e-7)):
            r.skipped += 1
            r.outcome = 'skipped-no-spectral-gap'
            return r
    else:
        # a truncating cut is only a function of the input if (i) no intermediate unfolding of Psi_w has a singular value
        # below 3*cut (apart from exact zeros) and (ii) the last unfolding has a gap around the cut
        Tw = Pw.reshape(n + [m])
        ok = True
        for kk in range(1, len(n)):
            sv = np.linalg.svd(Tw.reshape(int(np.prod(n[:kk])), -1), compute_uv=False)
            v_ = sv / sv[0] if case['rel'] else sv
            ok &= not np.any((v_ > 1e-12) & (v_ < 3 * thr))
        v_ = rel if case['rel'] else S
        ok &= not np.any((v_ > thr / 1.5) & (v_ < thr * 1.5)) and np.any(v_ < thr) and np.any(v_ > thr)
        if not ok:
            r.skipped += 1
            r.outcome = 'skipped-cut-not-isolated'
            return r
        r.outcome = 'truncating-cut'
    k = int(np.sum(S > thr)) if not case['rel'] else int(np.sum(rel > thr))
    U, S, Vt = U[:, :k], S[:k], Vt[:k]
    if case['b']:
        LP = np.array([[gen_oracle(basis, s, x[:, l], b[:, l], sigma[:, :, l]) for l in range(m)] for s in idxs])  # N x m
        LPw = LP * np.sqrt(ww)[None, :]
        M = Vt @ LPw.T @ U @ np.diag(1 / S)
    else:
        M = np.zeros((k, k))
        for l in range(m):
            G = np.array([grad_cs(basis, s, x[:, l]) for s in idxs])      # N x d
            a = sigma[:, :, l] @ sigma[:, :, l].T
            Z = np.diag(1 / S) @ U.T @ G                                     # k x d
            M += -0.5 * ww[l] * Z @ a @ Z.T
    M = M / gscale                      # compare at unit scale; the library's eigenvalues are divided by gscale below
    lam, W = np.linalg.eig(M)
    order = np.argsort(-lam)
    lam = lam[order]; W = W[:, order]
    key = 'tgedmd:%s:%s' % ('nonrev' if case['b'] else 'rev', sq)
    mr = np.inf if case['mr'] == 'inf' else k + 1
    nev = np.inf if case['nev'] == 'inf' else 2
    with r.op(key + ':call'):
        with quiet():
            ev, out, ranks = tgedmd.amuset_hosvd(x, basis, sigma, b=b, reweight=w, num_eigvals=nev, threshold=thr, max_rank=mr,
                                                 return_option=case['ro'], rel_threshold=case['rel'])
        ev = np.asarray(ev) / gscale
        # output_freq only sets how often progress is reported: any value (dividing the number of snapshots or not, larger than
        # it) must leave the result as it is
        for of_ in (3, m + 5):
            with quiet():
                ev_o, _, _ = tgedmd.amuset_hosvd(x, basis, sigma, b=b, reweight=w, num_eigvals=nev, threshold=thr, max_rank=mr,
                                                 return_option=case['ro'], rel_threshold=case['rel'], output_freq=of_)
            r.close(key + ':output_freq-changes-result', np.asarray(ev_o) / gscale, ev, 1e-10, 'output_freq=%d, %d snapshots' % (of_, m))
        # importance ratios are defined up to a common factor: unnormalised (tiny) weights give the same eigenvalues when the cut of
        # the singular values is relative
        if w is not None and case['rel']:
            with quiet():
                ev_w, _, _ = tgedmd.amuset_hosvd(x, basis, sigma, b=b, reweight=1e-10 * np.asarray(w), num_eigvals=nev, threshold=thr, max_rank=mr,
                                                 return_option=case['ro'], rel_threshold=True)
            r.close(key + ':unnormalised-weights', np.asarray(ev_w) / gscale, ev, 1e-8, 'reweight scaled by 1e-10')
        kk = k if nev == np.inf else min(k, 2)
        if r.true(key + ':eigenvalue-count', ev.shape == (kk,), 'got %s expected %d (rank %d)' % (ev.shape, kk, k)):
            # multiset comparison (greedy matching against the leading part of the sorted dense spectrum)
            pool = list(range(k)); match = []
            for e in ev:
                j = min(pool, key=lambda jj: abs(lam[jj] - e)); pool.remove(j); match.append(j)
            cond = S[0] / S[-1]
            scale = max(1.0, np.abs(lam).max())
            r.true(key + ':eigenvalues', max(abs(ev[i] - lam[match[i]]) for i in range(kk)) <= 1e-6 * cond * scale,
                   'eigenvalues %s vs dense %s' % (np.round(ev, 6), np.round(lam, 6)))
            if nev != np.inf and kk < k:
                # which eigenvalues are kept: the leading ones, i.e. those with the largest real parts
                dre = np.sort(np.real(lam))[::-1]
                if dre[kk - 1] - dre[kk] > 1e-6 * scale:
                    r.close(key + ':leading-eigenvalues', np.sort(np.real(ev))[::-1], dre[:kk], 1e-6 * cond * scale, 'num_eigvals=%d of %d' % (kk, k))
            r.true(key + ':ranks', list(ranks)[0] == 1 and list(ranks)[-1] == 1 and list(ranks)[-2] == k, 'ranks %s (dense rank %d)' % (ranks, k))
            gaps_ok = k == 1 or np.min(np.abs(lam[:, None] - lam[None, :]) + 1e3 * np.eye(k)) > 1e-4
            if gaps_ok and np.max(np.abs(np.imag(lam))) < 1e-9:
                if case['ro'] == 'eigenfunctionevals':
                    ref = (W.T @ Vt)                # k x m
                    worst = 0.0
                    arr = np.asarray(out)
                    if r.true(key + ':evals-shape', arr.shape == (kk, m), arr.shape):
                        for i in range(kk):
                            a_, b_ = arr[i], ref[match[i]]
                            worst = max(worst, 1 - abs(np.vdot(a_, b_)) / max(1e-300, np.linalg.norm(a_) * np.linalg.norm(b_)))
                        r.true(key + ':eigenfunction-evaluations', worst <= 1e-5 * cond, 'worst 1-|cos| %.3e' % worst)
                elif case['ro'] == 'eigentensors':
                    worst = 0.0
                    if r.true(key + ':eigentensor-count', len(out) == kk):
                        for i in range(kk):
                            cores = out[i]
                            t = np.ones((1, 1))
                            for c in cores:
                                c = np.asarray(c)
                                c = c.reshape(c.shape[0], c.shape[1], -1)
                                t = np.tensordot(t, c, axes=(1, 0)).reshape(-1, c.shape[2])
                            v = t.reshape(-1)
                            refv = U @ W[:, match[i]]
                            worst = max(worst, 1 - abs(np.vdot(v, refv)) / max(1e-300, np.linalg.norm(v) * np.linalg.norm(refv)))
                        r.true(key + ':eigentensors', worst <= 1e-5 * cond, 'worst 1-|cos| %.3e' % worst)
    r.true(key + ':inputs-unchanged', np.array_equal(x, x0) and np.array_equal(sigma, s0) and (b is None or np.array_equal(b, b0)) and
           (w is None or np.array_equal(w, w0)), 'data, sigma, drift or the reweighting vector were modified')
    return r
