"""C12 — Markov generators from reaction lists (SLIM) and Ulam operators equal their definition."""
import itertools
import numpy as np
from vt.core import R, mat, meta_problem

ID = 'C12'
LEVEL = 'exploration'
RULE = ('SLIM: complete enumeration of state-space vector x per-bond two-cell reaction set (empty, every single reaction of a '
        '6-reaction alphabet per bond type, the two pairs of reactions sharing a reactant pair [every unordered pair in thorough], so neighbouring bonds get different '
        'interaction ranks) x single-cell pattern x open/cyclic x threshold {0,1e-12}; a second sub-lattice enumerates EVERY '
        'single-cell reaction (all reactant != product pairs) per cell; the homogeneous wrapper with cyclic in {True,False}. '
        'Ulam: every ordered transition table with <= 3 (2 for the larger grids) transitions over all box pairs of the grids '
        '1x2, 2x2, 2x3, 3x2 (2-D) and 2x2x2, 1x2x2, 2x1x3 (3-D) x simulations {1,2,4}. Oracle: state-enumeration generator / '
        'direct histogram. Non-trivial: at least one reaction / transition.')
ASSUMPTIONS = ['generator semantics: G[x\',x] += k and G[x,x] -= k for every elementary reaction applicable in global state x',
               'rates taken from {1, 0.5, 3} by position', 'Ulam operator: entry [target, source] = count / simulations']
CHUNK = 64
RATES = [1.0, 0.5, 3.0]


def space(tier):
    return {'slim orders': [2, 3] if tier == 'quick' else [2, 3, 4], 'cell sizes': [2, 3], 'two-cell alphabet': 6, 'threshold': [0, 1e-12],
            'ulam grids': ['1x2', '2x2', '2x3', '3x2', '2x2x2', '1x2x2', '2x1x3']}


def two_alpha(n1, n2):
    """six two-cell reactions valid for cells of sizes n1, n2 (>= 2)"""
    return [[0, 1, 0, 1], [0, 1, 1, 0], [1, 0, 0, 0], [0, 0, 1, 0], [n1 - 1, 0, n2 - 1, 0], [1, 1, 0, n2 - 1]]


def cases(tier):
    q = tier == 'quick'
    for d in ([2, 3] if q else [2, 3, 4]):
        for ss in itertools.product([2, 3], repeat=d):
            if d == 4 and sum(ss) > 9:
                continue
            for cyclic in (False, True):
                nb = d if cyclic else d - 1
                per_bond = []
                for b in range(nb):
                    n1, n2 = ss[b], ss[(b + 1) % d]
                    al = two_alpha(n1, n2)
                    opts = [[]] + [[x] for x in al]
                    # two reactions with the SAME reactant pair and different products (their loss terms accumulate)
                    opts += [[al[1], al[3]], [al[2], al[5]]]
                    if not q and d < 4:
                        opts += [[x, y] for x, y in itertools.combinations(al, 2) if [x, y] not in opts]
                    per_bond.append(opts)
                for tc in itertools.product(*per_bond):
                    for sp in ('none', 'each', 'first-last', 'dup'):
                        for thr in (0, 1e-12):
                            yield {'k': 'slim', 'ss': list(ss), 'cyclic': cyclic, 'tc': [list(x) for x in tc], 'sp': sp, 'thr': thr}
            # bonds whose two-cell super-core has FULL rank (creation, annihilation and both exchanges of a two-state pair): with a
            # tiny non-zero threshold no singular value is negligible, nothing may be cut
            if set(ss) == {2}:
                rich = [[0, 1, 0, 1], [1, 0, 1, 0], [0, 1, 1, 0], [1, 0, 0, 1]]
                for cyclic in (False, True):
                    for sp in ('none', 'each'):
                        for thr in (1e-12, 1e-14, 0):
                            yield {'k': 'slim', 'ss': list(ss), 'cyclic': cyclic, 'tc': [[list(x) for x in rich]] * (d if cyclic else d - 1), 'sp': sp, 'thr': thr}
                            yield {'k': 'hom', 'ss': list(ss), 'cyclic': cyclic, 's': [[0, 1, 0.8], [1, 0, 0.2]] if sp == 'each' else [],
                                   't': [x + [rt] for x, rt in zip(rich, (1.0, 2.5, 0.7, 0.35))], 'thr': thr}
            # every single-cell reaction per cell, two-cell part fixed
            pairs = [[(a, b) for a in range(n) for b in range(n) if a != b] for n in ss]
            if d <= 3:
                for sc in itertools.product(*[[None] + p for p in pairs]):
                    for cyclic in (False, True):
                        yield {'k': 'slim1', 'ss': list(ss), 'cyclic': cyclic, 'sc': [list(x) if x else None for x in sc], 'thr': 1e-12 if cyclic else 0}
        # homogeneous wrapper
        for n in (2, 3):
            for cyclic in (False, True):
                for s_set in ([], [[0, 1, 1.0]], [[0, 1, 1.0], [n - 1, 0, 0.5]]):
                    for t_set in ([], [two_alpha(n, n)[0] + [2.0]], [two_alpha(n, n)[1] + [1.0], two_alpha(n, n)[4] + [3.0]]):
                        for thr in (0, 1e-12):
                            yield {'k': 'hom', 'ss': [n] * d, 'cyclic': cyclic, 's': s_set, 't': t_set, 'thr': thr}
    # homogeneous wrapper (one reaction set for every cell / bond) on longer chains whose cells have different sizes
    for ss in ([2, 2, 3, 2], [2, 3, 2, 3, 2], [3, 2, 2, 2], [2, 2, 2, 2]):
        for cyclic in (False, True):
            for s_set in ([[0, 1, 1.0]], [[0, 1, 1.0], [1, 0, 0.5]]):
                for t_set in ([two_alpha(2, 2)[0] + [2.0]], [two_alpha(2, 2)[1] + [1.0], two_alpha(2, 2)[2] + [3.0]]):
                    yield {'k': 'hom', 'ss': ss, 'cyclic': cyclic, 's': s_set, 't': t_set, 'thr': 0}
    # one transition recorded far more often than `simulations` (merged runs): entries are plain quotients
    for reps_, sim in ((300, 100), (70000, 1000), (260, 255)):
        yield {'k': 'ulam3', 'grid': [2, 1, 2], 'tab': [[1, 1, 1, 2, 1, 2]], 'sim': sim, 'repeat': reps_}
        yield {'k': 'ulam2', 'grid': [2, 2], 'tab': [[1, 1, 2, 2]], 'sim': sim, 'repeat': reps_}
    # Ulam
    for grid, maxlen in (([1, 2], 3), ([2, 2], 3), ([2, 3], 2), ([3, 2], 2)):
        boxes = list(itertools.product(*[range(1, g + 1) for g in grid]))
        pairs = [a + b for a in boxes for b in boxes]
        for L in range(1, maxlen + 1):
            for tab in itertools.product(pairs, repeat=L):
                for sim in ((1, 2, 4) if L < 3 else (2,)):
                    yield {'k': 'ulam2', 'grid': grid, 'tab': [list(t) for t in tab], 'sim': sim}
    for c_ in narrow_tables():
        yield c_
    for grid, maxlen in (([2, 2, 2], 2 if not q else 1), ([1, 2, 2], 2), ([2, 1, 3], 2 if not q else 1)):
        boxes = list(itertools.product(*[range(1, g + 1) for g in grid]))
        pairs = [a + b for a in boxes for b in boxes]
        for L in range(1, maxlen + 1):
            for tab in itertools.product(pairs, repeat=L):
                for sim in (1, 4):
                    yield {'k': 'ulam3', 'grid': grid, 'tab': [list(t) for t in tab], 'sim': sim}


def narrow_tables():
    """transition tables stored in narrow integer types on grids with >= 12 boxes in a direction (box numbers whose products
    exceed the type's range)"""
    for grid in ([12, 1, 2], [2, 1, 13], [17, 2, 1], [1, 2, 17]):
        hi = [g for g in grid]
        for src, tgt in ((hi, hi), (hi, [1, 1, 1]), ([1, 1, 1], hi), ([max(1, g - 1) for g in grid], hi)):
            for dt in ('int8', 'uint8', 'int16', 'int32'):
                yield {'k': 'ulam3', 'grid': grid, 'tab': [list(src) + list(tgt), list(tgt) + list(src)], 'sim': 2, 'dt': dt}
    for grid in ([12, 2], [2, 17]):
        hi = list(grid)
        for src, tgt in ((hi, hi), (hi, [1, 1]), ([1, 1], hi)):
            for dt in ('int8', 'uint8', 'int16'):
                yield {'k': 'ulam2', 'grid': grid, 'tab': [list(src) + list(tgt), list(tgt) + list(src)], 'sim': 2, 'dt': dt}


def generator(ss, single, two, cyclic):
    d = len(ss)
    N = int(np.prod(ss))
    G = np.zeros((N, N))
    idx = lambda x: int(np.ravel_multi_index(x, ss))
    for x in itertools.product(*[range(n) for n in ss]):
        for i in range(d):
            for (a, b, k) in single[i]:
                if x[i] == a:
                    y = list(x); y[i] = b
                    G[idx(y), idx(x)] += k; G[idx(x), idx(x)] -= k
        for bnd in range(len(two)):
            i, j = bnd, (bnd + 1) % d
            for (a1, b1, a2, b2, k) in two[bnd]:
                if x[i] == a1 and x[j] == a2:
                    y = list(x); y[i] = b1; y[j] = b2
                    G[idx(y), idx(x)] += k; G[idx(x), idx(x)] -= k
    return G


def check_generator(r, key, op, G, ss):
    mp = meta_problem(op)
    if not r.true(key + ':meta', mp is None, mp):
        return
    if not r.true(key + ':dims', list(op.row_dims) == list(ss) and list(op.col_dims) == list(ss)):
        return
    M = mat(op)
    sc = max(1.0, np.abs(G).max()) if np.abs(G).max() > 1e-6 else np.abs(G).max()
    r.true(key + ':generator', np.abs(M - G).max() <= 1e-11 * sc, 'max deviation %.3e from the state-enumeration generator' % np.abs(M - G).max())
    r.true(key + ':column-sums', np.abs(M.sum(axis=0)).max() <= 1e-11 * sc, 'max |column sum| %.3e' % np.abs(M.sum(axis=0)).max())
    off = M - np.diag(np.diag(M))
    r.true(key + ':offdiag-nonneg', off.min() >= -1e-11 * sc, 'min off-diagonal %.3e' % off.min())


def run_case(case, seed):
    from scikit_tt import slim
    from scikit_tt.data_driven import ulam
    r = R(case)
    k = case['k']
    if k in ('slim', 'slim1'):
        ss, cyclic = case['ss'], case['cyclic']
        d = len(ss)
        nb = d if cyclic else d - 1
        if k == 'slim':
            two = [[list(x) + [RATES[(b + j) % 3]] for j, x in enumerate(case['tc'][b])] for b in range(nb)]
            if case['sp'] == 'none':
                single = [[] for _ in range(d)]
            elif case['sp'] == 'each':
                single = [[[0, ss[i] - 1, RATES[i % 3]]] for i in range(d)]
            elif case['sp'] == 'dup':
                # the SAME single-cell transition listed twice on a cell (two channels with different rates): the rates add up
                single = [[[0, 1, 1.5], [0, 1, 0.7]]] + [[] for _ in range(d - 2)] + [[[ss[-1] - 1, 0, 3.0], [ss[-1] - 1, 0, 0.25], [0, 1, 1.0]]]
            else:
                single = [[[1, 0, 0.5]]] + [[] for _ in range(d - 2)] + [[[ss[-1] - 1, 0, 3.0], [0, 1, 1.0]]]
            r.nontrivial = any(two) or case['sp'] != 'none'
            ranks_differ = len({len(t) for t in two}) > 1
            key = 'slim:%s%s' % ('cyclic' if cyclic else 'open', ':bond-ranks-differ' if (ranks_differ and case['thr'] != 0) else '')
        else:
            single = [[[sc[0], sc[1], RATES[i % 3]]] if sc else [] for i, sc in enumerate(case['sc'])]
            two = [[two_alpha(ss[b], ss[(b + 1) % d])[b % 6] + [RATES[b % 3]]] for b in range(nb)]
            r.nontrivial = True
            key = 'slim:%s:single-cell' % ('cyclic' if cyclic else 'open')
        if k == 'slim' and case['sp'] == 'first-last' and case['thr'] == 0:
            # all rates in a fine time unit (x 1e-9): the generator is linear in the rates, whatever their magnitude
            single = [[[a_, b_, k_ * 1e-9] for a_, b_, k_ in c_] for c_ in single]
            two = [[[a1, b1, a2, b2, k_ * 1e-9] for a1, b1, a2, b2, k_ in b_] for b_ in two]
        G = generator(ss, single, two, cyclic)
        s_in = [[list(x) for x in c] for c in single]; t_in = [[list(x) for x in b] for b in two]
        with r.op(key + ':call'):
            if k == 'slim' and case['sp'] == 'each':
                # history: the same system was assembled with a coarse threshold just before (nothing may be remembered)
                coarse = slim.slim_mme(list(ss), [[list(x) for x in c] for c in single], [[list(x) for x in b] for b in two], threshold=0.3)
                r.true(key + ':coarse:meta', meta_problem(coarse) is None, str(meta_problem(coarse)))
            op = slim.slim_mme(list(ss), s_in, t_in, threshold=case['thr'])
            check_generator(r, key, op, G, ss)
        r.true('slim:inputs-unchanged', s_in == [[list(x) for x in c] for c in single] and t_in == [[list(x) for x in b] for b in two])
    elif k == 'hom':
        ss, cyclic = case['ss'], case['cyclic']
        d = len(ss)
        nb = d if cyclic else d - 1
        single = [[list(x) for x in case['s']] for _ in range(d)]
        two = [[list(x) for x in case['t']] for _ in range(nb)]
        G = generator(ss, single, two, cyclic)
        r.nontrivial = bool(case['s'] or case['t'])
        key = 'slim_hom:%s' % ('cyclic' if cyclic else 'open')
        with r.op(key + ':call'):
            op = slim.slim_mme_hom(list(ss), [list(x) for x in case['s']], [list(x) for x in case['t']], cyclic=cyclic, threshold=case['thr'])
            check_generator(r, key, op, G, ss)
    else:
        grid = case['grid']; nd = len(grid)
        if case.get('repeat'):
            case = dict(case, tab=case['tab'] * case['repeat'])
        tab = np.array(case['tab'], dtype=case.get('dt', 'int64')).T        # shape (2*nd, K): columns are transitions
        N = int(np.prod(grid))
        P = np.zeros((N, N))
        for t in case['tab']:
            src = np.ravel_multi_index([a - 1 for a in t[:nd]], grid); tgt = np.ravel_multi_index([a - 1 for a in t[nd:]], grid)
            P[tgt, src] += 1.0
        P = P / case['sim']
        r.nontrivial = True
        key = 'ulam_%dd' % nd
        t0 = tab.copy()
        with r.op(key + ':call'):
            op = (ulam.ulam_2d if nd == 2 else ulam.ulam_3d)(tab, list(grid), case['sim'])
            mp = meta_problem(op)
            if r.true(key + ':meta', mp is None, mp) and r.true(key + ':dims', list(op.row_dims) == list(grid) and list(op.col_dims) == list(grid)):
                r.close(key + ':histogram', mat(op), P, 1e-13)
                full = [c for c in range(N) if abs(P[:, c].sum() - 1) < 1e-12]
                r.true(key + ':column-sums', all(abs(mat(op)[:, c].sum() - 1) <= 1e-12 for c in full))
        r.true(key + ':input-unchanged', np.array_equal(tab, t0))
    return r
