"""C16 — MANDy (coordinate-major, function-major, kernel-based) and alternating ridge regression."""
import itertools
import numpy as np
from vt.core import R, rng_for, dn, rand_cores, tt_from, admissible_ranks, snap, unchanged, meta_problem, quiet
from vt import monitors as mon
from vt.props.c15 import SCAL, NREP, basis_from, psi_oracle, data as gen_data

ID = 'C16'
LEVEL = 'exploration'
RULE = ('complete enumeration of state dimension {1,2,3} x snapshot count 1..6 (under-, exactly- and over-determined) x basis '
        'window (length 2-3 over six representatives) x add_one x data family (generic full rank with threshold 0 and 1e-10, '
        'repeated snapshots and integer-dtype data with threshold 1e-10) for mandy_cm / mandy_fm; mandy_kb over product bases and output dimensions '
        '1-3; ARR over product bases x EVERY admissible guess rank vector x repeats {1,2,3} with rcond 1e-14 and a monitor on '
        'every micro-step (least-squares residual non-increasing along the sweep). Oracle: numpy.linalg.pinv / lstsq of the '
        'dense transformed data matrix. Non-trivial: more than one snapshot.')
ASSUMPTIONS = ['numpy.linalg.pinv of the dense transformed data matrix is the reference', 'thresholds lie in a spectral gap (D7)',
               'ARR guess passed as a TT (the list form updates its argument by design and is out of scope)',
               'kernel variant compared through fitted values z @ Gram = y @ pinv(Psi) @ Psi; Gram matrices whose condition number lies within a factor 1e3 of 1/eps are skipped (the routine\'s own solve/lstsq switch is not a function of the input there)']
CHUNK = 16
STATE = {'mon': None}


def space(tier):
    return {'d': [1, 2, 3], 'm': [1, 2, 3, 4, 5, 6], 'windows': 'length 2-3 x 6 starts', 'add_one': [True, False], 'threshold': [0, 1e-10],
            'arr': 'modes 2-3 x 2-3 functions, all admissible guess ranks, repeats 1-3', 'kb output dims': [1, 2, 3]}


def cases(tier):
    q = tier == 'quick'
    for d in (1, 2, 3):
        for m in ((1, 2, 3, 4, 5, 6) if q else (1, 2, 3, 4, 5, 6, 8, 10)):
            for n in (2, 3):
                for s in range(NREP):
                    for fam, thr in (('gauss', 0), ('gauss', 1e-10), ('repeat', 1e-10), ('intdtype', 1e-10)):
                        yield {'k': 'cm', 'd': d, 'm': m, 'w': [s, n], 'fam': fam, 'thr': thr}
                        for a1 in (True, False):
                            yield {'k': 'fm', 'd': d, 'm': m, 'w': [s, n], 'fam': fam, 'thr': thr, 'add_one': a1}
    for d in (1, 2):
        for m in (1, 2, 3, 4, 6, 9):
            for p in (1, 2):
                for ws in itertools.product(*([[(s, n) for n in (2, 3) for s in (0, 1, 3)]] * p)):
                    for dout in (1, 2, 3):
                        yield {'k': 'kb', 'd': d, 'm': m, 'ws': [list(w) for w in ws], 'dout': dout}
    for p in ((2, 3) if q else (2, 3, 4)):
        d = p                      # mode k depends on coordinate k only: products of the basis functions are independent
        for m in ((3, 5, 8, 12) if (q or p == 4) else (3, 5, 8, 12, 20)):
            if p == 4 and m < 8:
                continue
            for ws in itertools.product(*([[(s, n) for n in ((2, 3) if p < 4 else (2,)) for s in (0, 1, 3)]] * p)):
                n = [w[1] for w in ws]
                for rg in admissible_ranks(n):
                    for dout in (1, 2):
                        yield {'k': 'arr', 'd': d, 'm': m, 'ws': [list(w) for w in ws], 'rg': rg, 'dout': dout}


def _install():
    from scikit_tt.data_driven import regression as reg

    def wrap(orig):
        def w(i, micro_matrix, rhs, solution, rcond, direction):
            m = STATE['mon']
            if m is not None:
                m.before(np.array(micro_matrix), np.array(rhs), i, direction, solution)
            return orig(i, micro_matrix, rhs, solution, rcond, direction)
        return w
    mon.install(reg, '__arr_update_core', wrap)


def arr_micro_dense(solution, i, evals):
    """dense micro matrix of ARR for core i: M[(a,k,b), j] = L_j[a] * psi_{i,k}(x_j) * R_j[b], from the current cores and
    the basis evaluations evals[t] (n_t x m) of every mode"""
    p = len(evals); m = evals[0].shape[1]
    L = np.ones((1, m))
    for t in range(i):
        c = np.asarray(solution.cores[t])[:, :, 0, :]
        L = np.einsum('aj,kj,akl->lj', L, evals[t], c)
    Rm = np.ones((1, m))
    for t in range(p - 1, i, -1):
        c = np.asarray(solution.cores[t])[:, :, 0, :]
        Rm = np.einsum('akl,kj,lj->aj', c, evals[t], Rm)
    M = np.einsum('aj,kj,bj->akbj', L, evals[i], Rm)
    return M.reshape(-1, m)


class ResMonitor:
    def __init__(self, r, scale, evals=None):
        self.r = r; self.res = []; self.scale = scale; self.k = None; self.evals = evals

    def before(self, M, rhs, i, direction, solution=None):
        if self.evals is not None and solution is not None:
            try:
                self.r.close('arr:micro-matrix', M, arr_micro_dense(solution, i, self.evals), 1e-9, '%s core %d' % (direction, i))
            except Exception as e:
                self.r.fail('arr:micro-matrix:oracle', repr(e))
        c, *_ = np.linalg.lstsq(M.T, rhs, rcond=1e-14)
        res = np.linalg.norm(M.T @ c - rhs)
        if self.res:
            self.r.le('arr:micro-step-residual', res, self.res[-1], 1e-6 * self.scale, '%s core %d' % (direction, i))
        self.res.append(res)


def run_case(case, seed):
    import scikit_tt.data_driven.regression as reg
    r = R(case)
    rng = rng_for(case, seed)
    k = case['k']
    d, m = case['d'], case['m']
    r.nontrivial = m > 1
    if k in ('cm', 'fm'):
        x = gen_data(rng, d, m, case['fam']); y = rng.standard_normal((d, m))
        x0, y0 = x.copy(), y.copy()
        s, n = case['w']
        phi = [SCAL[(s + j) % NREP] for j in range(n)]
        thr = case['thr']
        if k == 'cm':
            shape = [n] * d
            Psi = np.zeros(shape + [m])
            for j in range(m):
                for idx in itertools.product(range(n), repeat=d):
                    Psi[idx + (j,)] = np.prod([phi[idx[c]](x[c, j]) for c in range(d)])
            call = lambda: reg.mandy_cm(x, y, phi, threshold=thr)
            key = 'mandy_cm'
        else:
            a1 = case['add_one']
            sz = d + (1 if a1 else 0)
            shape = [sz] * n
            Psi = np.zeros(shape + [m])
            for j in range(m):
                gg = [([1.0] if a1 else []) + [phi[kk](x[c, j]) for c in range(d)] for kk in range(n)]
                for idx in itertools.product(range(sz), repeat=n):
                    Psi[idx + (j,)] = np.prod([gg[kk][idx[kk]] for kk in range(n)])
            call = lambda: reg.mandy_fm(x, y, phi, threshold=thr, add_one=a1)
            key = 'mandy_fm'
        P = Psi.reshape(-1, m)
        sv = np.linalg.svd(P, compute_uv=False)
        if sv[0] == 0:
            r.skipped += 1
            return r
        rel = sv / sv[0]
        # admissible only if the spectrum has a clear gap at the cut (D7)
        cut = thr if thr else 1e-13
        if np.any((rel > cut * 1e-3) & (rel < max(cut * 1e3, 1e-7))) or (thr == 0 and rel.min() < 1e-7):   # threshold 0: full rank only
            r.skipped += 1
            r.outcome = 'skipped-no-spectral-gap'
            return r
        want = (y @ np.linalg.pinv(P, rcond=max(cut, 1e-13))).T        # (N, d)
        cond = 1.0 / rel[rel > cut].min()
        with r.op(key + ':call'):
            xi = call()
            mp = meta_problem(xi)
            if r.true(key + ':meta', mp is None, mp) and r.true(key + ':dims', list(xi.row_dims) == shape + [d], 'row dims %s' % xi.row_dims):
                r.close(key + ':coefficients', dn(xi).reshape(-1, d), want, 1e-10 * cond)
        r.true(key + ':data-unchanged', np.array_equal(x, x0) and np.array_equal(y, y0))
    elif k == 'kb':
        x = gen_data(rng, d, m, 'gauss'); y = rng.standard_normal((case['dout'], m))
        basis = basis_from(case['ws'], d)
        P = psi_oracle(x, basis).reshape(-1, m)
        G = P.T @ P
        cg = np.linalg.cond(G)
        eps_inv = 1.0 / np.finfo(float).eps
        if eps_inv / 1e3 < cg < eps_inv * 1e3 and np.linalg.matrix_rank(P) == min(P.shape) and m <= P.shape[0]:
            r.skipped += 1
            return r
        sv = np.linalg.svd(P, compute_uv=False)
        rel = sv / sv[0]
        if np.any((rel > 1e-15) & (rel < 1e-6)):
            r.skipped += 1
            r.outcome = 'skipped-no-spectral-gap'
            return r
        with r.op('mandy_kb:call'):
            z = reg.mandy_kb(x, y, basis)
            if r.true('mandy_kb:shape', np.shape(z) == (case['dout'], m), np.shape(z)):
                fitted = z @ G
                want = y @ np.linalg.pinv(P, rcond=1e-10) @ P
                r.close('mandy_kb:fitted-values', fitted, want, 1e-7 * min(cg, 1e6) ** 0.5)
    else:
        _install()
        x = gen_data(rng, d, m, 'gauss'); y = rng.standard_normal((case['dout'], m))
        x0, y0 = x.copy(), y.copy()
        from vt.props.c15 import reps
        basis = [[reps(kk)[(s_ + j) % NREP] for j in range(n_)] for kk, (s_, n_) in enumerate(case['ws'])]
        n = [len(b) for b in basis]; p = len(n)
        P = psi_oracle(x, basis).reshape(-1, m)
        svP = np.linalg.svd(P, compute_uv=False)
        if svP[-1] < 1e-5 * svP[0]:
            # (nearly) dependent basis products: a 1e-14 cut-off inverts rounding-level directions, descent is not observable
            r.skipped += 1
            r.outcome = 'skipped-ill-conditioned'
            return r
        guess = tt_from(rand_cores(rng, n, [1] * p, case['rg']))
        sG = snap(guess)
        key = 'arr'
        datasets = [(x, y, P, (1, 2, 3))]
        xB = gen_data(rng, d, m, 'gauss'); yB = rng.standard_normal((case['dout'], m))
        PB = psi_oracle(xB, basis).reshape(-1, m)
        svB = np.linalg.svd(PB, compute_uv=False)
        if svB[-1] >= 1e-5 * svB[0]:
            datasets.append((xB, yB, PB, (2,)))      # a second, different data set of the same sizes in the same process
        guess2 = tt_from(rand_cores(rng, n, [1] * p, case['rg']))
        if max(case['rg']) > 1:
            # noise-free data generated by a rank-ONE coefficient tensor (lower than the ranks of the guess): the fit is exact and
            # the result must still have the ranks of the guess
            xi1 = tt_from(rand_cores(rng, n, [1] * p, [1] * (p + 1)))
            y_exact = np.tile(dn(xi1).reshape(-1) @ P, (case['dout'], 1)) * np.arange(1, case['dout'] + 1)[:, None]
            datasets.append((x, y_exact, P, (1, 2)))
        for di, (xd, yd, Pd, rep_list) in enumerate(datasets + ([(x, y, P, (1, 2))] if case['dout'] >= 2 else [])):
          # last entry (two output rows): the initial guess given as a LIST of different trains, one per row (an undocumented
          # warm-start form: the routine works in the list's trains, so copies are handed over and not re-read)
          glist = di == len(datasets)
          evals = [np.array([[float(f(xd[:, j])) for j in range(m)] for f in b]) for b in basis]
          prev = None
          for reps in rep_list:
            monitors = []
            STATE['mon'] = None
            with r.op(key + ':call'):
                # one monitor per output row: the routine processes the rows one after another
                class Multi:
                    def __init__(s_):
                        s_.cur = None; s_.count = 0; s_.per = reps * (2 * p - 1)
                    def before(s_, M, rhs, i, direction, solution=None):
                        if s_.count % s_.per == 0:
                            s_.cur = ResMonitor(r, 1.0 + np.linalg.norm(rhs), evals); monitors.append(s_.cur)
                        s_.count += 1
                        s_.cur.before(M, rhs, i, direction, solution)
                STATE['mon'] = Multi()
                with quiet():
                    sol = reg.arr(xd, yd, basis, ([guess.copy(), guess2.copy()] + [guess.copy() for _ in range(case['dout'] - 2)]) if glist else guess, repeats=reps, rcond=1e-14, progress=False)
                STATE['mon'] = None
                if not r.true(key + ':result-list', isinstance(sol, list) and len(sol) == case['dout']):
                    continue
                res = []
                for q_, s_ in enumerate(sol):
                    mp = meta_problem(s_)
                    if not r.true(key + ':meta', mp is None, mp):
                        break
                    r.true(key + ':dims', list(s_.row_dims) == n)
                    r.true(key + ':ranks-kept', list(s_.ranks) == list(case['rg']), 'ranks %s guess %s' % (s_.ranks, case['rg']))
                    res.append(np.linalg.norm(dn(s_).reshape(-1) @ Pd - yd[q_]))
                if len(res) == case['dout']:
                    if prev is not None:
                        for q_ in range(case['dout']):
                            r.le(key + ':residual-vs-repeats', res[q_], prev[q_], 1e-6 * (1 + np.linalg.norm(yd[q_])), 'repeats %d row %d' % (reps, q_))
                    prev = res
            STATE['mon'] = None
        # rcond = 0 (no cut-off at all; int and float zero) is a value like any other: same result as the negligible cut-off 1e-15
        with r.op(key + ':rcond-zero:call'):
            with quiet():
                ref_ = reg.arr(x, y, basis, guess, repeats=2, rcond=1e-15, progress=False)
            for z_ in (0, 0.0):
                with quiet():
                    s0_ = reg.arr(x, y, basis, guess, repeats=2, rcond=z_, progress=False)
                if isinstance(s0_, list) and len(s0_) == len(ref_) and all(meta_problem(t_) is None for t_ in s0_):
                    for q_ in range(len(ref_)):
                        fa, fb = dn(s0_[q_]).reshape(-1) @ P, dn(ref_[q_]).reshape(-1) @ P
                        r.close(key + ':rcond-zero:fitted-values', fa, fb, 1e-6, 'rcond=%r vs rcond=1e-15, row %d' % (z_, q_))
        # right-hand sides in tiny units (x 1e-9): the fit is linear in y, a small right-hand side is not a zero right-hand side
        with r.op(key + ':tiny-units:call'):
            with quiet():
                s9_ = reg.arr(x, 1e-9 * y, basis, guess, repeats=2, rcond=1e-15, progress=False)
            if isinstance(s9_, list) and len(s9_) == len(ref_) and all(meta_problem(t_) is None for t_ in s9_):
                for q_ in range(len(ref_)):
                    fa, fb = dn(s9_[q_]).reshape(-1) @ P / 1e-9, dn(ref_[q_]).reshape(-1) @ P
                    r.close(key + ':tiny-units:fitted-values', fa, fb, 1e-6, 'y scaled by 1e-9, row %d' % q_)
        # the same features in other units: every basis function scaled so that the transformed data are of magnitude ~3e-10; rcond
        # is a RELATIVE cut-off, so the fitted values are the same
        npm_ = len(basis)
        al_ = (3e-10) ** (1.0 / npm_)
        basis_u = [[(lambda f_: (lambda t_: al_ * f_(t_)))(f_) for f_ in mode_] for mode_ in basis]
        with r.op(key + ':feature-units:call'):
            with quiet():
                r10_ = reg.arr(x, y, basis, guess, repeats=2, rcond=1e-10, progress=False)
                u10_ = reg.arr(x, y, basis_u, guess, repeats=2, rcond=1e-10, progress=False)
            if isinstance(u10_, list) and len(u10_) == len(r10_) and all(meta_problem(t_) is None for t_ in u10_):
                for q_ in range(len(r10_)):
                    fa, fb = dn(u10_[q_]).reshape(-1) @ P * 3e-10, dn(r10_[q_]).reshape(-1) @ P
                    r.close(key + ':feature-units:fitted-values', fa, fb, 1e-6, 'features scaled to magnitude 3e-10, row %d' % q_)
        r.true(key + ':guess-unchanged', unchanged(guess, sG), 'initial guess modified')
        r.true(key + ':data-unchanged', np.array_equal(x, x0) and np.array_equal(y, y0))
    return r
