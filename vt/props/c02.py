"""C02 — contractions and structural rearrangements equal their dense definition."""
import itertools
import numpy as np
from vt.core import (R, rng_for, dn, dense_cores, mk_tt, rand_array, rank_vectors, snap, unchanged, meta_problem,
                     subsets, compositions)

ID = 'C02'
LEVEL = 'exploration'
RULE = ('complete enumeration per operation: tensordot over (order pair, mode, num_axes, site-type pattern of '
        'self-free/contracted/other-free sites, all internal rank vectors, outer boundary ranks, dtype pair), both '
        'overwrite variants per point; rank_tensordot, concatenate (TT and list), rank_transpose; diag over every '
        'subset of sites; squeeze over every placement of 1x1 modes; tt2qtt over every ordered factorisation of '
        'every mode (equal lengths) + qtt2tt over every composition + round trip; build_core(_vector) over every '
        'grid shape x block shape x placement of integer zeros x complex pattern x iscomplex. Non-trivial: a size-1 '
        'mode, a rank > 1, a complex operand, a zero block, or more than one contracted/split mode.')
ASSUMPTIONS = ['numpy.tensordot / reshape / kron semantics are the reference',
               'complete contraction over both operands with both outer ranks != 1: library orientation (self, other) '
               'accepted, values checked (undocumented case)',
               'tt2qtt with threshold 0 (exact) and 1e-13 (negligible)', 'squeeze needs a mode > 1 and boundary ranks 1 (D1, D6)']
CHUNK = {'quick': 64, 'thorough': 128}
TOL = 1e-10
MODES = ['last-first', 'last-last', 'first-last', 'first-first']
Q = [(1, 1), (2, 1), (1, 2), (2, 2)]
Q3 = [(1, 1), (2, 1), (1, 2), (2, 2), (3, 1), (3, 2), (2, 3)]


def group_sites(g, n, off, alph):
    if g == 'mix':
        return [alph[(j + off) % len(alph)] for j in range(n)]
    return [tuple(g)] * n


def space(tier):
    return {'tensordot': {'orders': [1, 2, 3] if tier == 'quick' else [1, 2, 3, 4], 'modes': MODES,
                          'site types': (Q if tier == 'quick' else Q3) + ['mix'], 'ranks': [1, 2] if tier == 'quick' else [1, 2, 3],
                          'outer ranks': [1, 2] if tier == 'quick' else [1, 2, 3]},
            'qtt mode sizes': [1, 2, 3, 4, 6], 'qtt split lengths': [1, 2] if tier == 'quick' else [1, 2, 3],
            'build_core grids': '1..3 x 1..3, blocks (m,n) in {1,2,3}^2 and 1-D'}


def cases(tier):
    if tier != 'quick':
        # the thorough tier is a superset: the quick tensordot lattice first (all rank vectors over {1,2} at orders <= 3),
        # then the larger alphabets (orders <= 4, ranks <= 3, outer ranks {1,3}, mixed site types over sizes <= 3)
        for c in cases('quick'):
            if c['op'] == 'td':
                yield c
    q = tier == 'quick'
    # ---- tensordot
    orders = [1, 2, 3] if q else [1, 2, 3, 4]
    alph = Q if q else Q3
    groups = [list(x) for x in (Q if q else Q)] + ['mix']
    rk = [1, 2] if q else [1, 2, 3]
    for d1 in orders:
        for d2 in orders:
            if not q and d1 + d2 > 6:
                continue
            for k in range(1, min(d1, d2) + 1):
                gs = groups if d1 - k > 0 else [None]
                go = groups if d2 - k > 0 else [None]
                if not q and d1 + d2 >= 6:   # bound the thorough product at the largest orders
                    gs = [g for g in gs if g in (None, 'mix', [2, 1])]
                    go = [g for g in go if g in (None, 'mix', [2, 2])]
                for mode in MODES:
                    for gS, gC, gO in itertools.product(gs, groups, go):
                        for rS in itertools.product(rk, repeat=d1 - 1):
                            for rO in itertools.product(rk, repeat=d2 - 1):
                                if not q and d1 + d2 >= 5 and (max(rS + rO + (1,)) == 3 and min(rS + rO + (3,)) < 3):
                                    continue   # thorough: rank 3 only uniformly at large orders
                                for oS, oO in itertools.product([1, 2] if q else [1, 3], repeat=2):
                                    for cS, cO in itertools.product([False, True], repeat=2):
                                        yield {'op': 'td', 'd1': d1, 'd2': d2, 'k': k, 'mode': mode, 'gS': gS, 'gC': gC,
                                               'gO': gO, 'rS': list(rS), 'rO': list(rO), 'oS': oS, 'oO': oO, 'cS': cS,
                                               'cO': cO, 'alph': 'Q' if q else 'Q3'}
    # ---- tensordot of a tensor train with ITSELF (the same object as both operands), with and without overwrite
    for d in (1, 2, 3):
        for sites in itertools.product([(2, 1), (3, 1), (2, 2)], repeat=d):
            for rr in itertools.product([1, 2], repeat=d - 1):
                for c in (False, True):
                    for mode in MODES:
                        for k in range(1, d + 1):
                            if mode in ('last-first', 'first-last') and list(sites[d - k:]) != list(sites[:k]):
                                continue
                            yield {'op': 'tdself', 'sites': [list(x) for x in sites], 'r': [1] + list(rr) + [1], 'c': c, 'mode': mode, 'k': k}
    # ---- rank_tensordot / concatenate / rank_transpose
    for d in ([1, 2, 3] if q else [1, 2, 3, 4]):
        for sites in itertools.product(Q if d < 4 else [(2, 1), (1, 2)], repeat=d):
            for r in itertools.product([1, 2], repeat=d - 1):
                for b0, b1 in itertools.product([1, 2, 3], repeat=2):
                    for c in (False, True):
                        yield {'op': 'rank', 'sites': [list(s) for s in sites], 'r': [b0] + list(r) + [b1], 'c': c}
    for d1, d2 in itertools.product([1, 2] if q else [1, 2, 3], repeat=2):
        for s1 in itertools.product(Q, repeat=d1):
            for s2 in itertools.product(Q[1:], repeat=d2):
                for r1 in itertools.product([1, 2], repeat=d1 + 1):
                    for r2 in itertools.product([1, 2], repeat=d2):
                        for c1, c2 in itertools.product([False, True], repeat=2):
                            yield {'op': 'cat', 's1': [list(s) for s in s1], 's2': [list(s) for s in s2],
                                   'r1': list(r1), 'r2': [r1[-1]] + list(r2), 'c1': c1, 'c2': c2}
    # ---- diag
    for d in ([1, 2, 3] if q else [1, 2, 3, 4]):
        for rows in itertools.product([1, 2, 3] if d < 4 else [1, 2], repeat=d):
            for r in rank_vectors(d, [1, 2]):
                for c in ((False, True, 'tail', 'head') if d > 1 else (False, True)):
                    yield {'op': 'diag', 'rows': list(rows), 'r': r, 'c': c}
    # ---- squeeze: every placement of 1x1 modes
    for d in ([1, 2, 3, 4] if q else [1, 2, 3, 4, 5]):
        for sites in itertools.product([(1, 1), (2, 1), (2, 2), (1, 2)], repeat=d):
            if all(s == (1, 1) for s in sites):
                continue
            if d >= 4 and sum(1 for s in sites if s == (1, 1)) == 0:
                continue
            for r in rank_vectors(d, [1, 2]):
                if d >= 4 and len(set(r[1:-1])) > 1 and q:
                    continue
                for c in ((False, True) if d < 5 else (False,)):
                    yield {'op': 'sq', 'sites': [list(s) for s in sites], 'r': r, 'c': c}
    # ---- tt2qtt / qtt2tt
    L = [1, 2] if q else [1, 2, 3]
    sizes = [1, 2, 3, 4, 6]

    def splits(m, n, l):
        fm = [f for f in itertools.product(range(1, m + 1), repeat=l) if int(np.prod(f)) == m]
        fn = [f for f in itertools.product(range(1, n + 1), repeat=l) if int(np.prod(f)) == n]
        return [(list(a), list(b)) for a in fm for b in fn]
    # order 1: all (m, n) pairs, all splits
    for m, n in itertools.product(sizes, repeat=2):
        for l in L:
            for sp in splits(m, n, l):
                for c in (False, True):
                    yield {'op': 'qtt', 'sites': [[m, n]], 'split': [sp], 'r': [1, 1], 'c': c}
    # order 2/3: restricted site sizes, all splits per site, all ranks
    site2 = [(4, 1), (4, 2), (6, 4), (2, 2), (1, 4), (3, 1)]
    for d in ([2] if q else [2, 3]):
        for sites in itertools.product(site2 if d == 2 else site2[:3], repeat=d):
            per = [[sp for l in L for sp in splits(m, n, l)] for (m, n) in sites]
            if d == 3:
                per = [p[:4] for p in per]
            for sp in itertools.product(*per):
                for r in rank_vectors(d, [1, 2] if q else [1, 2, 3]):
                    for c in ((False, True) if d == 2 else (False,)):
                        yield {'op': 'qtt', 'sites': [list(s) for s in sites], 'split': [list(x) for x in sp], 'r': r, 'c': c}
    for d in ([1, 2, 3, 4] if q else [1, 2, 3, 4, 5]):
        for comp in compositions(d):
            for sites in itertools.product([(2, 1), (1, 2), (2, 2), (3, 2)] if d < 4 else [(2, 1), (2, 2)], repeat=d):
                for r in ([[1] + [2] * (d - 1) + [1], [1] * (d + 1)] if d > 3 else list(rank_vectors(d, [1, 2]))):
                    yield {'op': 'merge', 'sites': [list(s) for s in sites], 'comp': comp, 'r': r, 'c': (d % 2 == 0)}
    # ---- build_core / build_core_vector
    for r1, r2 in itertools.product([1, 2, 3], repeat=2):
        ncell = r1 * r2
        if ncell <= 6:
            zero_sets = [z for z in subsets(ncell) if len(z) < ncell]
        else:
            zero_sets = [z for z in subsets(ncell) if len(z) <= 2]
        for blk in ([(1, 1), (2, 3), (3, 1), (2,)] if q else [(1, 1), (1, 2), (2, 1), (2, 2), (2, 3), (3, 3), (3, 1), (2,), (1,), (3,)]):
            for z in zero_sets:
                for cpat in ('real', 'allc', 'firstc', 'lastc'):
                    for isc in (False, True):
                        yield {'op': 'bc', 'r1': r1, 'r2': r2, 'blk': list(blk), 'zeros': z, 'cpat': cpat, 'isc': isc}
    for r1 in (1, 2, 3, 4):
        for blk in [(1, 1), (2, 3), (3, 1), (2,), (1,)]:
            for z in [z for z in subsets(r1) if len(z) < r1]:
                for cpat in ('real', 'allc', 'firstc', 'lastc'):
                    for isc in (False, True):
                        yield {'op': 'bcv', 'r1': r1, 'blk': list(blk), 'zeros': z, 'cpat': cpat, 'isc': isc}


# --------------------------------------------------------------------------------------------------------- helpers
def sites_dense(cores):
    """(r0, s1, .., sd, rd) with s_i = m_i*n_i merged in C order"""
    a = dense_cores(cores)       # (r0, m.., n.., rd)
    d = len(cores)
    perm = [0] + [x for i in range(d) for x in (1 + i, 1 + d + i)] + [2 * d + 1]
    a = np.transpose(a, perm)
    shp = [a.shape[0]] + [a.shape[1 + 2 * i] * a.shape[2 + 2 * i] for i in range(d)] + [a.shape[-1]]
    return a.reshape(shp)


def mk_sites(rng, sites, ranks, cplx, fam='gauss'):
    return mk_tt(rng, [s[0] for s in sites], [s[1] for s in sites], ranks, cplx, fam)


def check_result(r, key, T, want_sites, want_dims, tol=TOL):
    """T: TT; want_sites: array (b0, s.., b1); want_dims: list of (m,n)"""
    from scikit_tt.tensor_train import TT
    if not r.true(key + ':type', isinstance(T, TT), str(type(T))):
        return False
    mp = meta_problem(T)
    if not r.true(key + ':meta', mp is None, mp):
        return False
    dims = [(int(a), int(b)) for a, b in zip(T.row_dims, T.col_dims)]
    if not r.true(key + ':dims', dims == [tuple(x) for x in want_dims], 'dims %s expected %s' % (dims, want_dims)):
        return False
    return r.close(key + ':value', sites_dense(T.cores), want_sites, tol)


def td_oracle(S, O, d1, d2, k, mode):
    """S, O in sites form. returns (expected array (b0, sites.., b1), order spec) for the partial / one-sided cases"""
    if mode.startswith('last'):
        cs = list(range(d1 - k, d1)); fs = list(range(0, d1 - k))
        S2 = S[..., 0]                               # contracted-side boundary (must be 1)
        labS = ['Sb'] + ['S%d' % i for i in range(d1)]
        axS = [1 + i for i in cs]
    else:
        cs = list(range(k)); fs = list(range(k, d1))
        S2 = S[0]
        labS = ['S%d' % i for i in range(d1)] + ['Sb']
        axS = [i for i in cs]
    if mode.endswith('first'):
        co = list(range(k)); fo = list(range(k, d2))
        O2 = O[0]
        labO = ['O%d' % i for i in range(d2)] + ['Ob']
        axO = [i for i in co]
    else:
        co = list(range(d2 - k, d2)); fo = list(range(0, d2 - k))
        O2 = O[..., 0]
        labO = ['Ob'] + ['O%d' % i for i in range(d2)]
        axO = [1 + i for i in co]
    res = np.tensordot(S2, O2, axes=(axS, axO))
    rem = [l for j, l in enumerate(labS) if j not in axS] + [l for j, l in enumerate(labO) if j not in axO]
    Sf = ['S%d' % i for i in fs]; Of = ['O%d' % i for i in fo]
    if mode == 'last-first':
        order = ['Sb'] + Sf + Of + ['Ob']
    elif mode == 'last-last':
        order = ['Sb'] + Sf + Of[::-1] + ['Ob']
    elif mode == 'first-last':
        order = ['Ob'] + Of + Sf + ['Sb']
    else:
        order = ['Ob'] + Of[::-1] + Sf + ['Sb']
    return np.transpose(res, [rem.index(l) for l in order]), order


def run_case(case, seed):
    op = case['op']
    r = R(case)
    rng = rng_for(case, seed)
    return globals()['run_' + op](case, r, rng)


def run_td(case, r, rng):
    d1, d2, k, mode = case['d1'], case['d2'], case['k'], case['mode']
    alph = Q if case['alph'] == 'Q' else Q3
    sC = group_sites(case['gC'], k, 1, alph)
    sS = group_sites(case['gS'], d1 - k, 0, alph) if d1 > k else []
    sO = group_sites(case['gO'], d2 - k, 2, alph) if d2 > k else []
    sitesS = sS + sC if mode.startswith('last') else sC + sS
    sitesO = sC + sO if mode.endswith('first') else sO + sC
    rS = ([case['oS']] + case['rS'] + [1]) if mode.startswith('last') else ([1] + case['rS'] + [case['oS']])
    rO = ([1] + case['rO'] + [case['oO']]) if mode.endswith('first') else ([case['oO']] + case['rO'] + [1])
    A = mk_sites(rng, sitesS, rS, case['cS'])
    B = mk_sites(rng, sitesO, rO, case['cO'])
    r.nontrivial = (any(1 in s for s in sitesS + sitesO) or max(rS + rO) > 1 or case['cS'] or case['cO'] or k > 1)
    sA, sB = snap(A), snap(B)
    Sd, Od = sites_dense(A.cores), sites_dense(B.cores)
    want, order = td_oracle(Sd, Od, d1, d2, k, mode)
    both = (k == d1 and k == d2)
    key = 'tensordot:%s:%s' % (mode, 'both' if both else ('self' if k == d1 else ('other' if k == d2 else 'partial')))
    dims = []
    for l in order[1:-1]:
        dims.append(tuple(sitesS[int(l[1:])]) if l[0] == 'S' else tuple(sitesO[int(l[1:])]))
    if both:
        # library orientation (self free rank, other free rank); single core with a 1x1 mode
        w = want if order[0] == 'Sb' else want.T
        want2 = w.reshape(w.shape[0], 1, w.shape[1])
        dims = [(1, 1)]
    else:
        want2 = want
    for ow in (False, True):
        A2 = mk_sites(rng, sitesS, rS, case['cS'])
        for i in range(d1):
            A2.cores[i] = A.cores[i].copy()
        with r.op(key + ':call'):
            T = A2.tensordot(B, k, mode=mode, overwrite=ow)
            if check_result(r, key + (':ow' if ow else ''), T, want2, dims):
                if ow:
                    r.true(key + ':ow:identity', T is A2, 'overwrite=True must return self')
                else:
                    r.true(key + ':self-unchanged', unchanged(A2, sA), 'self changed by tensordot(overwrite=False)')
            r.true(key + ':other-unchanged', unchanged(B, sB), 'other changed by tensordot')
    return r


def run_tdself(case, r, rng):
    """differential oracle: t.tensordot(t) == t.tensordot(distinct copy of t), the latter being covered by the td lattice"""
    sites, rk, c, mode, k = case['sites'], case['r'], case['c'], case['mode'], case['k']
    A = mk_sites(rng, sites, rk, c)
    sA = snap(A)
    r.nontrivial = True
    key = 'tensordot:aliased-operands:%s' % mode
    with r.op(key + ':reference:call'):
        W = A.tensordot(A.copy(), k, mode=mode)
    want = sites_dense(W.cores)
    dims = [(W.row_dims[i], W.col_dims[i]) for i in range(W.order)]
    for ow in (False, True):
        A2 = A.copy()
        with r.op(key + ':call'):
            T = A2.tensordot(A2, k, mode=mode, overwrite=ow)
            if check_result(r, key + (':ow' if ow else ''), T, want, dims):
                if ow:
                    r.true(key + ':ow:identity', T is A2, 'overwrite=True must return self')
                else:
                    r.true(key + ':self-unchanged', unchanged(A2, sA), 'self changed by tensordot(overwrite=False)')
    return r


def run_rank(case, r, rng):
    sites, rk, c = case['sites'], case['r'], case['c']
    A = mk_sites(rng, sites, rk, c)
    sA = snap(A)
    Sd = sites_dense(A.cores)
    d = len(sites)
    r.nontrivial = True
    dims = [tuple(s) for s in sites]
    # rank_transpose
    with r.op('rank_transpose:call'):
        T = A.rank_transpose()
        check_result(r, 'rank_transpose', T, np.transpose(Sd, list(range(d + 1, -1, -1))), dims[::-1])
        r.true('rank_transpose:self-unchanged', unchanged(A, sA))
        A2 = A.copy()
        T2 = A2.rank_transpose(overwrite=True)
        r.true('rank_transpose:ow:identity', T2 is A2)
        check_result(r, 'rank_transpose:ow', T2, np.transpose(Sd, list(range(d + 1, -1, -1))), dims[::-1])
    # rank_tensordot
    for kk in (1, 2, 3):
        for mode in ('last', 'first'):
            for cm in (False, True, 'eye'):
                shp = (rk[-1], kk) if mode == 'last' else (kk, rk[0])
                # 'eye': structured 0/1 matrices -- square identity, rectangular selector / zero-padding np.eye(r, k), unit vectors
                Mx = np.eye(*shp) if cm == 'eye' else rand_array(rng, shp, cm)
                if mode == 'last':
                    want = np.tensordot(Sd, Mx, axes=([d + 1], [0]))
                else:
                    want = np.tensordot(Mx, Sd, axes=([1], [0]))
                M0 = Mx.copy()
                for ow in (False, True):
                    A2 = A.copy()
                    with r.op('rank_tensordot:%s:call' % mode):
                        T = A2.rank_tensordot(Mx, mode=mode, overwrite=ow)
                        check_result(r, 'rank_tensordot:%s%s' % (mode, ':ow' if ow else ''), T, want, dims)
                        if ow:
                            r.true('rank_tensordot:ow:identity', T is A2)
                        else:
                            r.true('rank_tensordot:self-unchanged', unchanged(A2, sA))
                        r.true('rank_tensordot:matrix-unchanged', np.array_equal(Mx, M0))
    return r


def run_cat(case, r, rng):
    A = mk_sites(rng, case['s1'], case['r1'], case['c1'])
    B = mk_sites(rng, case['s2'], case['r2'], case['c2'])
    sA, sB = snap(A), snap(B)
    d1 = len(case['s1'])
    r.nontrivial = True
    want = np.tensordot(sites_dense(A.cores), sites_dense(B.cores), axes=([d1 + 1], [0]))
    dims = [tuple(s) for s in case['s1'] + case['s2']]
    for form in ('tt', 'list'):
        for ow in (False, True):
            A2 = A.copy()
            arg = B if form == 'tt' else [c.copy() for c in B.cores]
            with r.op('concatenate:%s:call' % form):
                T = A2.concatenate(arg, overwrite=ow)
                check_result(r, 'concatenate:%s%s' % (form, ':ow' if ow else ''), T, want, dims)
                if ow:
                    r.true('concatenate:ow:identity', T is A2)
                else:
                    r.true('concatenate:self-unchanged', unchanged(A2, sA))
                r.true('concatenate:other-unchanged', unchanged(B, sB))
    # aliased operand: a train concatenated with ITSELF (the object, and its own core list), with and without overwrite
    if A.ranks[0] == A.ranks[-1]:
        want_self = np.tensordot(sites_dense(A.cores), sites_dense(A.cores), axes=([d1 + 1], [0]))
        dims_self = [tuple(s_) for s_ in case['s1'] + case['s1']]
        for form in ('tt', 'list'):
            for ow in (False, True):
                A2 = A.copy()
                with r.op('concatenate:self:%s:call' % form):
                    T = A2.concatenate(A2 if form == 'tt' else A2.cores, overwrite=ow)
                    check_result(r, 'concatenate:self:%s%s' % (form, ':ow' if ow else ''), T, want_self, dims_self)
                    if not ow:
                        r.true('concatenate:self:self-unchanged', unchanged(A2, sA))
    # a REJECTED in-place call (incompatible ranks, documented ValueError) must leave the object as it was, and usable
    bad_first = [np.concatenate([B.cores[0], B.cores[0]], axis=0)] + [c.copy() for c in B.cores[1:]]          # left rank doubled: does not fit
    bad_inner = [c.copy() for c in B.cores] + [np.ones((B.cores[-1].shape[3] + 1, 2, 1, 1))]                  # inconsistent inside the list
    for nm, arg in (('first-rank', bad_first), ('inner-rank', bad_inner)):
        A2 = A.copy()
        with r.op('concatenate:rejected:call'):
            try:
                A2.concatenate(arg, overwrite=True)
                r.fail('concatenate:rejected:no-error', 'incompatible ranks (%s) accepted' % nm)
            except ValueError:
                mp = meta_problem(A2)
                r.true('concatenate:rejected:self-intact', mp is None and unchanged(A2, sA), 'after the rejected call (%s): %s' % (nm, mp or 'value/metadata changed'))
                if mp is None:
                    T = A2.concatenate(B, overwrite=True)
                    check_result(r, 'concatenate:after-rejected', T, want, dims)
    return r


def run_diag(case, r, rng):
    rows, rk, c = case['rows'], case['r'], case['c']
    d = len(rows)
    A = mk_tt(rng, rows, [1] * d, rk, c)
    sA = snap(A)
    x = dn(A).reshape(rows)
    r.nontrivial = (1 in rows) or max(rk) > 1 or c
    for S in subsets(d):
        cols = [rows[i] if i in S else 1 for i in range(d)]
        want = np.zeros(tuple(rows) + tuple(cols), dtype=complex)
        for idx in itertools.product(*[range(m) for m in rows]):
            j = tuple(idx[i] if i in S else 0 for i in range(d))
            want[idx + j] = x[idx]
        cls = 'size1' if any(rows[i] == 1 for i in S) else 'general'
        variants = [list(S)]
        if S:
            variants.append([i - d if i == max(S) else i for i in S])         # the last listed core addressed from the end
        for dl in variants:
          with r.op('diag:%s:call' % cls):
            T = A.diag(list(dl))
            mp = meta_problem(T)
            if r.true('diag:%s:meta' % cls, mp is None, mp):
                r.true('diag:%s:dims' % cls, list(T.row_dims) == list(rows) and list(T.col_dims) == cols,
                       'diag_list %s: dims %s %s' % (dl, T.row_dims, T.col_dims))
                if list(T.col_dims) == cols:
                    r.close('diag:%s:value' % cls, dn(T), want, TOL)
        r.true('diag:self-unchanged', unchanged(A, sA))
    return r


def run_sq(case, r, rng):
    sites, rk, c = case['sites'], case['r'], case['c']
    A = mk_sites(rng, sites, rk, c)
    keep = [i for i, s in enumerate(sites) if tuple(s) != (1, 1)]
    r.nontrivial = len(keep) < len(sites)
    Sd = sites_dense(A.cores)
    want = Sd.reshape([1] + [Sd.shape[1 + i] for i in keep] + [1])
    lead = tuple(sites[0]) == (1, 1)
    trail = tuple(sites[-1]) == (1, 1)
    cls = ('lead' if lead else '') + ('trail' if trail else '') or ('interior' if r.nontrivial else 'none')
    with r.op('squeeze:%s:call' % cls):
        T = A.squeeze()
        check_result(r, 'squeeze:%s' % cls, T, want, [tuple(sites[i]) for i in keep])
    return r


def run_qtt(case, r, rng):
    sites, split, rk, c = case['sites'], case['split'], case['r'], case['c']
    d = len(sites)
    A = mk_sites(rng, sites, rk, c)
    sA = snap(A)
    a = dn(A)    # (m.., n..)
    RM = [sp[0] for sp in split]; CN = [sp[1] for sp in split]
    r.nontrivial = any(len(x) > 1 for x in RM)
    flat_r = [f for x in RM for f in x]; flat_c = [f for x in CN for f in x]
    want = a.reshape(flat_r + flat_c)
    with r.op('tt2qtt:call'):
        T = A.tt2qtt([list(x) for x in RM], [list(x) for x in CN])
        mp = meta_problem(T)
        if r.true('tt2qtt:meta', mp is None, mp):
            ok = r.true('tt2qtt:dims', list(T.row_dims) == flat_r and list(T.col_dims) == flat_c,
                        'dims %s %s expected %s %s' % (T.row_dims, T.col_dims, flat_r, flat_c))
            if ok:
                r.close('tt2qtt:value', dn(T), want, TOL)
                with r.op('qtt2tt:roundtrip:call'):
                    B = T.qtt2tt([len(x) for x in RM])
                    mp = meta_problem(B)
                    if r.true('qtt2tt:roundtrip:meta', mp is None, mp):
                        r.true('qtt2tt:roundtrip:dims', list(B.row_dims) == [s[0] for s in sites] and
                               list(B.col_dims) == [s[1] for s in sites], 'dims %s %s' % (B.row_dims, B.col_dims))
                        if list(B.row_dims) == [s[0] for s in sites] and list(B.col_dims) == [s[1] for s in sites]:
                            r.close('qtt2tt:roundtrip:value', dn(B), a, TOL)
        r.true('tt2qtt:self-unchanged', unchanged(A, sA))
    # the factor lists given as tuples / as NumPy integer arrays
    for nm, conv in (('tuples', lambda L: tuple(tuple(x) for x in L)), ('arrays', lambda L: [np.array(x) for x in L])):
        with r.op('tt2qtt:%s:call' % nm):
            T3 = A.tt2qtt(conv(RM), conv(CN))
            mp = meta_problem(T3)
            if r.true('tt2qtt:%s:meta' % nm, mp is None, mp) and r.true('tt2qtt:%s:dims' % nm, [int(x) for x in T3.row_dims] == flat_r and [int(x) for x in T3.col_dims] == flat_c,
                                                                     'dims %s %s expected %s %s' % (T3.row_dims, T3.col_dims, flat_r, flat_c)):
                r.close('tt2qtt:%s:value' % nm, dn(T3), want, TOL)
    # a negligible relative threshold removes rounding-level singular directions only: same tensor, ranks not larger
    with r.op('tt2qtt:threshold:call'):
        T2 = A.tt2qtt([list(x) for x in RM], [list(x) for x in CN], threshold=1e-13)
        mp = meta_problem(T2)
        if r.true('tt2qtt:threshold:meta', mp is None, mp) and r.true('tt2qtt:threshold:dims', list(T2.row_dims) == flat_r and list(T2.col_dims) == flat_c):
            r.close('tt2qtt:threshold:value', dn(T2), want, 1e-9, 'threshold=1e-13')
            if mp is None and meta_problem(T) is None:
                r.true('tt2qtt:threshold:ranks', all(x <= y for x, y in zip(T2.ranks, T.ranks)), 'ranks %s with threshold, %s without' % (T2.ranks, T.ranks))
        r.true('tt2qtt:self-unchanged', unchanged(A, sA))
    return r


def run_merge(case, r, rng):
    sites, comp, rk, c = case['sites'], case['comp'], case['r'], case['c']
    A = mk_sites(rng, sites, rk, c)
    sA = snap(A)
    a = dn(A)
    r.nontrivial = any(x > 1 for x in comp)
    rows, cols, k = [], [], 0
    for n in comp:
        rows.append(int(np.prod([s[0] for s in sites[k:k + n]])))
        cols.append(int(np.prod([s[1] for s in sites[k:k + n]])))
        k += n
    with r.op('qtt2tt:call'):
        T = A.qtt2tt(list(comp))
        mp = meta_problem(T)
        if r.true('qtt2tt:meta', mp is None, mp):
            if r.true('qtt2tt:dims', list(T.row_dims) == rows and list(T.col_dims) == cols,
                      'dims %s %s expected %s %s' % (T.row_dims, T.col_dims, rows, cols)):
                r.close('qtt2tt:value', dn(T), a.reshape(rows + cols), TOL)
        r.true('qtt2tt:self-unchanged', unchanged(A, sA))
    return r


def _blocks(case, rng, n):
    blk = tuple(case['blk'])
    out = []
    for i in range(n):
        if i in case['zeros']:
            out.append(0)
            continue
        cp = case['cpat']
        nz = [j for j in range(n) if j not in case['zeros']]
        cplx = cp == 'allc' or (cp == 'firstc' and i == nz[0]) or (cp == 'lastc' and i == nz[-1])
        out.append(rand_array(rng, blk, cplx))
    return out


def run_bc(case, r, rng):
    from scikit_tt.tensor_train import build_core
    r1, r2, blk = case['r1'], case['r2'], tuple(case['blk'])
    m, n = (blk[0], 1) if len(blk) == 1 else blk
    flat = _blocks(case, rng, r1 * r2)
    grid = [[flat[i * r2 + j] for j in range(r2)] for i in range(r1)]
    want = np.zeros((r1, m, n, r2), dtype=complex)
    for i in range(r1):
        for j in range(r2):
            if not isinstance(grid[i][j], int):
                want[i, :, :, j] = grid[i][j].reshape(m, n)
    anyc = case['cpat'] != 'real'
    r.nontrivial = bool(case['zeros']) or anyc or case['isc']
    cls = []
    if isinstance(grid[-1][-1], int):
        cls.append('zero-last')
    if anyc or case['isc']:
        cls.append('complex')
    key = 'build_core:' + ('+'.join(cls) or 'general')
    with r.op(key + ':call'):
        with np.errstate(all='ignore'):
            core = build_core(grid, iscomplex=case['isc'])
        if r.true(key + ':shape', isinstance(core, np.ndarray) and core.shape == want.shape, getattr(core, 'shape', None)):
            r.close(key + ':value', core, want.astype(core.dtype) if not np.iscomplexobj(core) and not anyc else want, 0)
            r.true(key + ':dtype', np.iscomplexobj(core) == (anyc or case['isc']), 'dtype %s' % core.dtype)
    return r


def run_bcv(case, r, rng):
    from scikit_tt.tensor_train import build_core, build_core_vector
    r1, blk = case['r1'], tuple(case['blk'])
    m, n = (blk[0], 1) if len(blk) == 1 else blk
    lst = _blocks(case, rng, r1)
    want = np.zeros((r1, m, n, 1), dtype=complex)
    for i in range(r1):
        if not isinstance(lst[i], int):
            want[i, :, :, 0] = lst[i].reshape(m, n)
    anyc = case['cpat'] != 'real'
    r.nontrivial = bool(case['zeros']) or anyc or case['isc']
    key = 'build_core_vector:' + ('complex' if (anyc or case['isc']) else 'general')
    for name, f in (('direct', lambda: build_core_vector(lst, 'complex' if case['isc'] else 'float')),
                    ('via_build_core', lambda: build_core(lst, iscomplex=case['isc']))):
        with r.op(key + ':call'):
            with np.errstate(all='ignore'):
                core = f()
            if r.true(key + ':shape', isinstance(core, np.ndarray) and core.shape == want.shape, getattr(core, 'shape', None)):
                r.close(key + ':value', core, want, 0)
                r.true(key + ':dtype', np.iscomplexobj(core) == (anyc or case['isc']), 'dtype %s' % core.dtype)
    return r
