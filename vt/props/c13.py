"""C13 — bundled models are generators, unitaries or Hermitian/energy tables for all parameters."""
import itertools
import numpy as np
from vt.core import R, mat, dn, meta_problem
from vt.props.c12 import generator as reaction_generator

ID = 'C13'
LEVEL = 'exploration'
RULE = ('complete enumeration of every bundled model over every size that can be matricised (larger sizes: column sums in TT '
        'form) x parameter grids: co_oxidation(order, k_ad, cyclic), signaling_cascade(d), toll_station(lanes, cars), '
        'two_step_destruction(k1,k2,k3 in {0.5,1,2}^3, m), qft/iqft(n), qfa, qfan(n), shor(a coprime to 15), '
        'exciton_chain(n, alpha, beta), ising(d, J, h), fpu_coefficients(d), kuramoto_coefficients(d, w), cantor_dust / '
        'multisponge / vicsek_fractal(dimension, level), rgb_fractal(n, level). Oracles are assembled independently (reaction '
        'enumeration, DFT with bit reversal, ripple-carry adder semantics, Hamiltonian formulas, polynomial/trigonometric '
        'right-hand sides on a unisolvent grid, digit rules / Kronecker powers). Non-trivial: every case (distinct '
        'model/size/parameter points).')
ASSUMPTIONS = ['rate tables, DFT convention (bit-reversed rows), adder semantics |a,b,c,t> -> |a^b^c, b, c, t^maj(a,b,c)>, FPU beta=0.7, Kuramoto K=2, h=0.2 '
               'are taken from the docstrings / referenced papers / the repository tests\' data generators',
               'relative tolerances with respect to the largest entry (CO oxidation rates reach 1e8)']
CHUNK = 2


def space(tier):
    q = tier == 'quick'
    return {'co_oxidation order': [2, 3, 4, 5] if q else [2, 3, 4, 5, 6, 7], 'signaling_cascade d': [2, 3, 4] if q else [2, 3, 4, 5],
            'toll_station': 'lanes 2-4 x cars 1-3', 'two_step m': [1, 2, 3], 'qft n': list(range(1, 7 if q else 9)), 'qfan': [1, 2, 3] if q else [1, 2, 3, 4],
            'exciton n': list(range(2, 7 if q else 9)), 'ising d': list(range(2, 9)), 'fpu d': [2, 3, 4, 5, 6, 7] if q else [2, 3, 4, 5, 6, 7, 8],
            'kuramoto d': [1, 2, 3, 4, 5], 'fractals': 'dimension 1-3 (2-4), level 1-3'}


def cases(tier):
    q = tier == 'quick'
    for order in ([2, 3, 4, 5] if q else [2, 3, 4, 5, 6, 7]):
        for k in (1e-2, 1.0, 1e4):
            for cyc in (True, False):
                yield {'m': 'co_oxidation', 'order': order, 'k': k, 'cyclic': cyc}
    for d in ([2, 3, 4] if q else [2, 3, 4, 5]):
        yield {'m': 'signaling_cascade', 'd': d}
    for lanes in (2, 3, 4):
        for cars in (1, 2, 3):
            yield {'m': 'toll_station', 'lanes': lanes, 'cars': cars}
    for lanes, cars in ((5, 1), (6, 1), (7, 1), (5, 2)):
        yield {'m': 'toll_station', 'lanes': lanes, 'cars': cars}
    for k1, k2, k3 in itertools.product([0.5, 1.0, 2.0], repeat=3):
        for m in (1, 2, 3):
            yield {'m': 'two_step', 'k': [k1, k2, k3], 'mm': m}
    for n in range(1, 7 if q else 9):
        yield {'m': 'qft', 'n': n}
        # history: larger circuits were built in the same process just before (sizes in non-monotone order)
        yield {'m': 'qft', 'n': n, 'before': [n + 2, n + 1]}
    for n in ([1, 2, 3] if q else [1, 2, 3, 4]):
        yield {'m': 'qfan', 'n': n}
    yield {'m': 'qfa'}
    for a in (1, 2, 4, 7, 8, 11, 13, 14):
        yield {'m': 'shor', 'a': a}
    for n in range(2, 7 if q else 9):
        for al, be in itertools.product([0.0, 1.0, -0.3, 0, 1, 3], [0.5, -2.0, -0.25]):      # ints and floats: both are numbers
            yield {'m': 'exciton', 'n': n, 'alpha': al, 'beta': be}
    for d in range(2, 9):
        for J, h in list(itertools.product([1.0, -0.5, 0.0], [0.0, 0.3, -2.0])) + [(1e-9, 0.0), (-3e-10, 0.0), (1e-9, 2e-9)]:
            yield {'m': 'ising', 'd': d, 'J': J, 'h': h}
    for d in ([2, 3, 4, 5, 6, 7] if q else [2, 3, 4, 5, 6, 7, 8]):       # the exact TT ranks grow with d (d + 3 in the middle): no fixed cap is harmless
        yield {'m': 'fpu', 'd': d}
    for d in (1, 2, 3, 4, 5):
        for wk in ('lin', 'zero', 'neg', 'intarray', 'intlist'):
            yield {'m': 'kuramoto', 'd': d, 'w': wk}
    for dim in (1, 2, 3):
        for level in (1, 2, 3):
            yield {'m': 'cantor', 'dim': dim, 'level': level}
    for dim in (4, 5):                  # more directions at level 1 (3^dim cells)
        for m_ in ('cantor', 'multisponge', 'vicsek'):
            yield {'m': m_, 'dim': dim, 'level': 1}
    for m_ in ('cantor', 'multisponge', 'vicsek'):
        yield {'m': m_, 'dim': 2, 'level': 2, 'history': True}
    yield {'m': 'cantor', 'dim': 1, 'level': 3, 'history': True}
    for level in (4, 5, 6):            # deeper levels in low dimension (3^level cells per direction)
        yield {'m': 'cantor', 'dim': 1, 'level': level}
        if level <= 5:            # (multisponge / vicsek_fractal are documented for dimension > 1)
            yield {'m': 'multisponge', 'dim': 2, 'level': level}
            yield {'m': 'vicsek', 'dim': 2, 'level': level}
            yield {'m': 'cantor', 'dim': 2, 'level': level}
    for dim in ((2, 3) if q else (2, 3, 4)):
        for level in ((1, 2, 3) if dim < 4 else (1, 2)):
            yield {'m': 'multisponge', 'dim': dim, 'level': level}
            yield {'m': 'vicsek', 'dim': dim, 'level': level}
    for n in (2, 3):
        for level in (1, 2, 3):
            yield {'m': 'rgb', 'n': n, 'level': level}
            # nearly grey images (channels that differ in the sixth digit) and dark images (all entries ~1e-9, unrelated channels)
            yield {'m': 'rgb', 'n': n, 'level': level, 'kind': 'tinted'}
            yield {'m': 'rgb', 'n': n, 'level': level, 'kind': 'dark'}


def tt_column_sums(op):
    """2-norm of the row vector ones^T A, computed in TT form (transfer matrices; nothing of size prod(dims) is built)"""
    g = np.ones((1, 1))
    for c in op.cores:
        sk = np.asarray(c).sum(axis=1)           # (r, n, r')
        g = np.einsum('ab,anc,bnd->cd', g, sk, sk)
    return np.array([np.sqrt(abs(g[0, 0]))])


def check_gen(r, key, op, dense_ok=True, G=None):
    mp = meta_problem(op)
    if not r.true(key + ':meta', mp is None, mp):
        return
    r.true(key + ':square', list(op.row_dims) == list(op.col_dims))
    big = max(float(np.abs(c).max()) for c in op.cores)
    if dense_ok:
        M = mat(op)
        sc = max(1e-300, np.abs(M).max())
        r.true(key + ':column-sums', np.abs(M.sum(axis=0)).max() <= 1e-10 * sc, 'max |column sum| %.3e (largest entry %.3e)' % (np.abs(M.sum(axis=0)).max(), sc))
        off = M - np.diag(np.diag(M))
        r.true(key + ':offdiag-nonneg', off.min() >= -1e-10 * sc, 'min off-diagonal %.3e' % off.min())
        if G is not None:
            r.true(key + ':generator', np.abs(M - G).max() <= 1e-10 * sc, 'max deviation %.3e from the reaction-enumeration generator' % np.abs(M - G).max())
    else:
        cs = tt_column_sums(op)
        sc = max(1.0, np.abs(np.asarray([np.abs(c).sum() for c in op.cores])).max())
        r.true(key + ':column-sums-tt', np.abs(cs).max() <= 1e-9 * sc, 'max |column sum| %.3e' % np.abs(cs).max())


def bits(x, n):
    return [(x >> (n - 1 - i)) & 1 for i in range(n)]


def frombits(b):
    v = 0
    for x in b:
        v = (v << 1) | x
    return v


def adder_perm(n_adders):
    nq = 3 * n_adders + 1
    N = 2 ** nq
    P = np.zeros((N, N))
    for x in range(N):
        b = bits(x, nq)
        for k in range(n_adders):
            a, bb, c, t = b[3 * k], b[3 * k + 1], b[3 * k + 2], b[3 * k + 3]
            b[3 * k] = a ^ bb ^ c
            b[3 * k + 3] = t ^ ((a & bb) | (a & c) | (bb & c))
        P[frombits(b), x] = 1
    return P


def run_case(case, seed):
    import scikit_tt.models as mdl
    import scikit_tt.tensor_train as tt
    r = R(case)
    r.nontrivial = True
    m = case['m']
    key = m
    with r.op(key + ':call'):
        if m == 'co_oxidation':
            order, k, cyc = case['order'], case['k'], case['cyclic']
            op = mdl.co_oxidation(order, k, cyclic=cyc)
            G = None
            if order <= 5:
                single = [[[0, 2, k], [2, 0, 9.2e6]] for _ in range(order)]
                tw = [[0, 1, 0, 1, 9.7e7], [1, 0, 1, 0, 2.8e1], [2, 0, 1, 0, 1.7e5], [1, 0, 2, 0, 1.7e5], [1, 0, 0, 1, 5.0e-1], [0, 1, 1, 0, 5.0e-1],
                      [0, 2, 2, 0, 6.6e-2], [2, 0, 0, 2, 6.6e-2]]
                G = reaction_generator([3] * order, single, [tw for _ in range(order if cyc else order - 1)], cyc)
            check_gen(r, key + (':cyclic' if cyc else ':open'), op, True, G)
            r.true(key + ':dims', list(op.row_dims) == [3] * order)
        elif m == 'signaling_cascade':
            op = mdl.signaling_cascade(case['d'])
            r.true(key + ':dims', list(op.row_dims) == [64] * case['d'])
            check_gen(r, key, op, case['d'] <= 2)
            if case['d'] > 2:
                check_gen(r, key, op, False)
        elif m == 'toll_station':
            op = mdl.toll_station(case['lanes'], case['cars'])
            Gt = None
            if (case['cars'] + 1) ** case['lanes'] <= 300:
                # the defining reaction network: lanes equidistant on [-2, 2], arrival / departure rates from the position,
                # lane changes (rate 5) from a lane to a neighbour that holds fewer cars
                nl_, nc_ = case['lanes'], case['cars']
                f_in_ = lambda t: np.exp(-0.5 * t ** 2 / 2.5) / np.sqrt(2 * np.pi * 2.5) + 0.05
                f_out_ = lambda t: np.exp(-0.5 * (t + 1.5) ** 2) / np.sqrt(2 * np.pi) + np.exp(-0.5 * (t - 1.5) ** 2 / 0.5) / np.sqrt(2 * np.pi * 0.5)
                pos_ = np.linspace(-2.0, 2.0, nl_)
                single_ = [[x_ for j_ in range(nc_) for x_ in ([j_, j_ + 1, f_in_(pos_[i_])], [j_ + 1, j_, f_out_(pos_[i_])])] for i_ in range(nl_)]
                two_ = [[x_ for j_ in range(nc_) for k_ in range(j_ + 1) for x_ in ([j_ + 1, j_, k_, k_ + 1, 5.0], [k_, k_ + 1, j_ + 1, j_, 5.0])] for _ in range(nl_ - 1)]
                Gt = reaction_generator([nc_ + 1] * nl_, single_, two_, False)
            r.true(key + ':dims', list(op.row_dims) == [case['cars'] + 1] * case['lanes'])
            check_gen(r, key, op, True, Gt)
        elif m == 'two_step':
            k1, k2, k3 = case['k']
            op = mdl.two_step_destruction(k1, k2, k3, case['mm'])
            mm = case['mm']
            r.true(key + ':dims', list(op.row_dims) == [2 ** mm, 2 ** (mm + 1), 2 ** mm, 2 ** mm])
            check_gen(r, key, op, mm <= 2)
            if mm > 2:
                check_gen(r, key, op, False)
        elif m == 'qft':
            n = case['n']; N = 2 ** n
            for name, f, sign in (('qft', mdl.qft, 1), ('iqft', mdl.iqft, -1)):
                for nb in case.get('before', []):
                    f(nb)
                G = f(n)
                r.true(name + ':groups', isinstance(G, list) and len(G) == n, 'number of gate groups')
                P = np.eye(N, dtype=complex)
                for j, g in enumerate(G):
                    mp = meta_problem(g)
                    if not r.true(name + ':meta', mp is None, mp):
                        break
                    gm = mat(g) if n > 0 else None
                    r.close(name + ':group-unitary', gm.conj().T @ gm, np.eye(N), 1e-12, 'group %d' % j)
                    P = gm @ P
                x = np.arange(N)
                rev = np.array([frombits(bits(y, n)[::-1]) for y in range(N)])
                F = np.exp(sign * 2j * np.pi * np.outer(rev, x) / N) / np.sqrt(N)
                r.close(name + ':product', P, F, 1e-12, 'product of gate groups vs bit-reversed DFT%s' % (' (conjugate)' if sign < 0 else ''))
        elif m == 'qfa':
            G = mdl.qfa()
            r.close(key + ':permutation', mat(G), adder_perm(1), 0)
        elif m == 'qfan':
            n = case['n']
            G = mdl.qfan(n)
            mp = meta_problem(G)
            if r.true(key + ':meta', mp is None, mp) and r.true(key + ':dims', list(G.row_dims) == [2] * (3 * n + 1) and list(G.col_dims) == [2] * (3 * n + 1),
                                                               'dims %s %s' % (G.row_dims, G.col_dims)):
                P = adder_perm(n)
                if n <= 3:
                    M = mat(G)
                    r.close(key + ':unitary', M.T @ M, np.eye(M.shape[0]), 1e-12)
                    r.close(key + ':adder-network', M, P, 0)
                else:
                    nq = 3 * n + 1
                    bad = 0
                    for x in range(0, 2 ** nq, 7):
                        v = (G @ tt.unit([2] * nq, bits(x, nq))).matricize()
                        bad += int(np.abs(v - P[:, x]).max() > 1e-12)
                    r.true(key + ':adder-network', bad == 0, '%d basis states mapped wrongly' % bad)
        elif m == 'shor':
            a = case['a']
            G = mdl.shor(a)
            mp = meta_problem(G)
            if r.true(key + ':meta', mp is None, mp) and r.true(key + ':dims', list(G.row_dims) == [2] * 12 and list(G.col_dims) == [2] * 12):
                M = mat(G)
                N = 4096
                P = np.zeros((N, N))
                for x in range(N):
                    b = bits(x, 12)
                    j = 2 * b[6] + b[7]
                    t = frombits(b[8:]) ^ (pow(a, j) % 15)
                    P[frombits(b[:8] + bits(t, 4)), x] = 1
                r.true(key + ':oracle', np.abs(M - P).max() <= 1e-10, 'max deviation %.3e from |c,j,t> -> |c,j,t xor a^j mod 15>' % np.abs(M - P).max())
                r.true(key + ':unitary', np.abs(M.conj().T @ M - np.eye(N)).max() <= 1e-10)
        elif m == 'exciton':
            n, al, be = case['n'], case['alpha'], case['beta']
            H = mat(mdl.exciton_chain(n, al, be))
            ra = np.diag([1.0], -1); lo = np.diag([1.0], 1); num = ra @ lo

            def emb(ops):
                out = np.array([[1.0]])
                for i in range(n):
                    out = np.kron(out, ops.get(i, np.eye(2)))
                return out
            W = sum(al * emb({i: num}) for i in range(n))
            for i in range(n):
                j = (i + 1) % n
                W = W + be * (emb({i: ra, j: lo}) + emb({i: lo, j: ra})) if i != j else W
            r.close(key + ':hamiltonian', H, W, 1e-12)
            r.close(key + ':hermitian', H, H.conj().T, 1e-12)
        elif m == 'ising':
            d, J, h = case['d'], case['J'], case['h']
            T = mdl.ising(d, J, h)
            mp = meta_problem(T)
            if r.true(key + ':meta', mp is None, mp):
                E = dn(T).reshape([2] * d)
                want = np.zeros([2] * d)
                for idx in itertools.product([0, 1], repeat=d):
                    s = [1 - 2 * i for i in idx]
                    want[idx] = -J * sum(s[i] * s[i + 1] for i in range(d - 1)) - h * sum(s)
                sc_ = max(abs(J), abs(h))
                r.close(key + ':energy-table', E / sc_ if 0 < sc_ < 1e-6 else E, want / sc_ if 0 < sc_ < 1e-6 else want, 1e-12)       # tiny couplings: relative to their own size
        elif m == 'fpu':
            d = case['d']
            T = mdl.fpu_coefficients(d)
            mp = meta_problem(T)
            if r.true(key + ':meta', mp is None, mp) and r.true(key + ':dims', list(T.row_dims) == [4] * d + [d], 'dims %s' % T.row_dims):
                X = dn(T).reshape([4] * d + [d])
                nodes = np.array([-0.7, -0.2, 0.4, 0.9])
                V = np.vander(nodes, 4, increasing=True)          # V[k, i] = nodes[k]^i
                bad = 0.0
                Y = X
                for ax in range(d):
                    Y = np.moveaxis(np.tensordot(V, Y, axes=(1, ax)), 0, ax)   # evaluate on the 4^d grid
                for gi in itertools.product(range(4), repeat=d):
                    x = nodes[list(gi)]
                    xe = np.concatenate([[0.0], x, [0.0]])
                    rhs = np.array([xe[i + 2] - 2 * xe[i + 1] + xe[i] + 0.7 * ((xe[i + 2] - xe[i + 1]) ** 3 - (xe[i + 1] - xe[i]) ** 3) for i in range(d)])
                    bad = max(bad, np.abs(Y[gi] - rhs).max())
                r.true(key + ':rhs-on-unisolvent-grid', bad <= 1e-11, 'max deviation %.3e from the FPU right-hand side' % bad)
        elif m == 'kuramoto':
            d = case['d']
            w = {'lin': np.linspace(-5, 5, d), 'zero': np.zeros(d), 'neg': -1.0 - np.arange(d), 'intarray': np.arange(1, d + 1), 'intlist': np.arange(2, d + 2)}[case['w']]
            # natural frequencies may be integers (an integer array, a list of Python ints): the coefficients are real numbers
            T = mdl.kuramoto_coefficients(d, [int(v_) for v_ in w] if case['w'] == 'intlist' else np.array(w))
            mp = meta_problem(T)
            if r.true(key + ':meta', mp is None, mp) and r.true(key + ':dims', list(T.row_dims) == [d + 1, d + 1, d], 'dims %s' % T.row_dims):
                X = dn(T).reshape(d + 1, d + 1, d)
                W = np.zeros((d + 1, d + 1, d))
                for qq in range(d):
                    W[0, 0, qq] = w[qq]
                    W[qq + 1, 0, qq] = 0.2
                    for j in range(d):
                        if j != qq:
                            W[j + 1, qq + 1, qq] += 2.0 / d
                            W[qq + 1, j + 1, qq] -= 2.0 / d
                r.close(key + ':tensor', X, W, 1e-12)
                rng = np.random.default_rng(7)
                for _ in range(5):
                    th = rng.uniform(-3, 3, d)
                    val = np.einsum('i,j,ijq->q', np.concatenate([[1], np.sin(th)]), np.concatenate([[1], np.cos(th)]), X)
                    ti, tj = np.meshgrid(th, th)
                    rhs = w + 2.0 / d * np.sin(tj - ti).sum(0) + 0.2 * np.sin(th)
                    r.close(key + ':rhs', val, rhs, 1e-12)
        elif m in ('cantor', 'multisponge', 'vicsek'):
            dim, level = case['dim'], case['level']
            fr_ = {'cantor': mdl.cantor_dust, 'multisponge': mdl.multisponge, 'vicsek': mdl.vicsek_fractal}[m]
            if case.get('history'):
                # call history: the level-1 pattern is requested, the returned array is edited in place (inverted), then the
                # fractal is requested again
                first = fr_(dim, 1)
                first[...] = 1 - np.asarray(first)
            F = fr_(dim, level)
            seed_rule = {'cantor': lambda mid: mid == 0, 'multisponge': lambda mid: mid <= 1, 'vicsek': lambda mid: mid >= dim - 1}[m]
            seed_ = np.zeros([3] * dim, dtype=int)
            for idx in itertools.product(range(3), repeat=dim):
                seed_[idx] = int(seed_rule(sum(1 for i in idx if i == 1)))
            W = seed_
            for _ in range(level - 1):
                W = np.kron(W, seed_)
            r.true(key + ':kronecker-power', np.asarray(F).shape == W.shape and np.array_equal(np.asarray(F), W),
                   'shape %s expected %s' % (np.asarray(F).shape, W.shape))
        elif m == 'rgb':
            n, level = case['n'], case['level']
            rng = np.random.default_rng(11 + n)
            mats = [rng.integers(0, 3, (n, n)).astype(float) for _ in range(3)]
            unit = 1.0
            if case.get('kind') == 'tinted':
                base = rng.uniform(0.2, 1.0, (n, n))
                mats = [base, base * (1 + 2e-6 * rng.uniform(-1, 1, (n, n))), base * (1 + 2e-6 * rng.uniform(-1, 1, (n, n)))]
            elif case.get('kind') == 'dark':
                mats = [1e-9 * rng.uniform(0.1, 1.0, (n, n)) for _ in range(3)]
                unit = 1e-9 ** level
            F = mdl.rgb_fractal(mats[0], mats[1], mats[2], level)
            W = np.zeros((n ** level, n ** level, 3))
            for c in range(3):
                K = mats[c]
                for _ in range(level - 1):
                    K = np.kron(K, mats[c])
                W[:, :, c] = K
            r.close(key + ':kronecker-power', np.asarray(F) / unit, W / unit, 1e-12)
    # call history shared by every tensor-train constructor: the returned object is the caller's -- it is edited in place (a core
    # scaled, the train truncated to rank one), then the same model is requested again: a fresh object with the model's value
    build = {'co_oxidation': lambda: mdl.co_oxidation(case['order'], case['k'], cyclic=case['cyclic']) if case['order'] <= 3 else None,
             'toll_station': lambda: mdl.toll_station(case['lanes'], case['cars']) if (case['cars'] + 1) ** case['lanes'] <= 64 else None,
             'two_step': lambda: mdl.two_step_destruction(*case['k'], case['mm']) if case['mm'] <= 1 else None,
             'qfa': lambda: mdl.qfa(), 'qfan': lambda: mdl.qfan(case['n']) if case['n'] <= 1 else None,
             'ising': lambda: mdl.ising(case['d'], case['J'], case['h']) if case['d'] <= 5 else None,
             'exciton': lambda: mdl.exciton_chain(case['n'], case['alpha'], case['beta']) if case['n'] <= 5 else None,
             'fpu': lambda: mdl.fpu_coefficients(case['d']) if case['d'] <= 4 else None,
             'kuramoto': lambda: mdl.kuramoto_coefficients(case['d'], np.linspace(-5, 5, case['d'])) if case.get('w') == 'lin' else None}.get(m)
    if build is not None:
        from scikit_tt.tensor_train import TT as _TT
        with r.op(key + ':history:call'):
            T1 = build()
            if isinstance(T1, _TT) and meta_problem(T1) is None:
                from vt.core import dense_cores as _dc
                v1 = _dc(T1.cores).copy()
                T1.cores[0][...] = 2 * T1.cores[0]
                T1.cores[-1][...] = 0 * T1.cores[-1]
                T1.ortho(max_rank=1)
                T2 = build()
                r.true(key + ':history:fresh-object', T2 is not T1 and not any(np.shares_memory(a_, b_) for a_ in T1.cores for b_ in T2.cores),
                       'the second request returned the object (or core arrays) handed out before')
                if meta_problem(T2) is None:
                    v2 = _dc(T2.cores)
                    r.true(key + ':history:value', v1.shape == v2.shape and np.array_equal(v1, v2), 'the model changed after the caller edited an earlier result in place')
    return r
