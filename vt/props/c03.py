"""C03 — orthonormalisation preserves the tensor and yields orthonormal cores (full and partial sweeps)."""
import itertools
import numpy as np
from vt.core import (R, rng_for, dn, rand_cores, lowrank_cores, rank_vectors, snap, same_bits, meta_problem,
                     is_left_orth, is_right_orth)


def tt_from(cores):
    """fresh TT whose cores keep dtype and strides of the given arrays (every call gets its own buffers)"""
    from scikit_tt.tensor_train import TT
    out = []
    seen = {}
    for c in cores:
        if id(c) in seen:       # the same array object used for several cores stays one object
            out.append(seen[id(c)])
            continue
        if c.flags['C_CONTIGUOUS']:
            out.append(c.copy())
        else:   # a genuine copy (np.ascontiguousarray would hand back the same buffer for an F-ordered array transposed back)
            out.append(np.transpose(np.array(np.transpose(c, (3, 2, 1, 0)), order='C', copy=True), (3, 2, 1, 0)))
        seen[id(c)] = out[-1]
    return TT(out)

ID = 'C03'
LEVEL = 'exploration'
RULE = ('complete enumeration of order x site dims (vectors and operators) x rank vector (incl. over-parameterised '
        'ranks larger than the neighbouring mode products) x per-core dtype pattern x value family (generic, rank-deficient cores, small '
        'integers, integer dtype, a zero core, a core of magnitude 1e-170, one array object used for every core) x memory layout (contiguous, transposed views); per point ortho_left(), ortho_right(), ortho() and EVERY admissible (start_index, end_index) pair of '
        'both one-sided sweeps. Non-trivial: order >= 2 (at least one core is processed).')
ASSUMPTIONS = ['threshold=0, max_rank=inf (truncation is C04)', 'boundary ranks 1']
CHUNK = 32
TOL = 1e-10


def space(tier):
    q = tier == 'quick'
    return {'orders': [1, 2, 3] if q else [1, 2, 3, 4, 5], 'dims': [1, 2] if q else [1, 2, 3], 'ranks': [1, 2, 3, 5] if q else [1, 2, 3, 5, 7],
            'families': ['gauss', 'lowrank', 'int', 'intdtype', 'zerocore', 'tinycore'], 'dtype': ['real', 'complex', 'core0 real + rest complex', 'only core0 complex'], 'layout': ['C', 'transposed views']}


def cases(tier):
    q = tier == 'quick'
    for d in ([1, 2, 3] if q else [1, 2, 3, 4, 5]):
        dims = [1, 2] if (q or d >= 4) else [1, 2, 3]
        rk = [1, 2, 3, 5] if (q or d == 4) else ([1, 2, 3, 5, 7] if d < 4 else [1, 2, 3])
        for rows in itertools.product(dims, repeat=d):
            for cols in itertools.product((dims if d < 3 or q else [1, 2]) if d < 5 else [1], repeat=d):
                for r in rank_vectors(d, rk):
                    for c in ((False, True, 'tail', 'head') if d > 1 else (False, True)):
                        for fam in ('gauss', 'lowrank', 'int', 'intdtype', 'zerocore', 'tinycore', 'samecore', 'tinyscale'):
                            if d >= 4 and fam not in ('gauss', 'lowrank', 'samecore'):
                                continue
                            if fam == 'samecore' and not (d >= 2 and len(set(rows)) == 1 and len(set(cols)) == 1 and max(r) == 1 and c in (False, True)):
                                continue
                            if fam in ('intdtype', 'zerocore', 'tinycore', 'samecore', 'tinyscale') and c not in (False, True):
                                continue
                            for lay in (('C', 'V') if fam in ('gauss', 'intdtype') else ('C',)):
                                yield {'rows': list(rows), 'cols': list(cols), 'r': r, 'c': c, 'fam': fam, 'lay': lay}
                    # open boundary ranks (the parts returned by TT.svd, environments): r_0 and / or r_d larger than 1
                    for r0, rd in ((2, 1), (1, 3), (2, 3)):
                        if d <= 3 or max(r) <= 2:
                            yield {'rows': list(rows), 'cols': list(cols), 'r': [r0] + list(r[1:-1]) + [rd], 'c': False, 'fam': 'gauss', 'lay': 'C'}
                            yield {'rows': list(rows), 'cols': list(cols), 'r': [r0] + list(r[1:-1]) + [rd], 'c': True, 'fam': 'lowrank', 'lay': 'C'}


def build(case, rng):
    fam = case['fam']
    if fam == 'lowrank':
        cores = lowrank_cores(rng, case['rows'], case['cols'], case['r'], case['c'], 1)
    elif fam == 'intdtype':          # integer *dtype* cores (complex: Gaussian-integer valued complex cores)
        cores = rand_cores(rng, case['rows'], case['cols'], case['r'], case['c'], 'int')
        cores = [c_ if np.iscomplexobj(c_) else c_.astype(np.int64) for c_ in cores]
    elif fam == 'zerocore':          # one core is exactly zero (the represented tensor is zero)
        cores = rand_cores(rng, case['rows'], case['cols'], case['r'], case['c'], 'gauss')
        cores[len(cores) // 2] = np.zeros_like(cores[len(cores) // 2])
    elif fam == 'samecore':          # homogeneous product state written as [core] * d: ONE array object is every core
        c_ = rand_cores(rng, case['rows'][:1], case['cols'][:1], [1, 1], case['c'], 'gauss')[0]
        cores = [c_] * len(case['rows'])
    elif fam == 'tinyscale':         # a train of overall scale 1e-18 (physical units): every entry, real and imaginary part, is tiny in absolute terms
        cores = rand_cores(rng, case['rows'], case['cols'], case['r'], case['c'], 'gauss')
        cores[0] = cores[0] * 1e-18
    elif fam == 'tinycore':          # one core of tiny magnitude: squares underflow, the tensor itself is representable
        cores = rand_cores(rng, case['rows'], case['cols'], case['r'], case['c'], 'gauss')
        cores[0] = cores[0] * 1e-170
    else:
        cores = rand_cores(rng, case['rows'], case['cols'], case['r'], case['c'], fam)
    if case.get('lay') == 'V':       # cores that are transposed views (strides as after TT.transpose / rank_transpose)
        cores = [np.transpose(np.ascontiguousarray(np.transpose(c_, (3, 2, 1, 0))), (3, 2, 1, 0)) for c_ in cores]
    return cores


def run_case(case, seed):
    r = R(case)
    rng = rng_for(case, seed)
    cores_in = build(case, rng)
    d = len(cores_in)
    r.nontrivial = d >= 2
    from vt.core import dense_cores as _dc
    want = _dc([np.asarray(c_) for c_ in cores_in])            # keeps open boundary ranks
    sc = max(1.0, np.linalg.norm(want.ravel()))
    unit = 1e-18 if case['fam'] == 'tinyscale' else 1.0          # values are compared relative to the tensor's own scale

    class _Cores(list):
        pass
    cores0 = _Cores(cores_in)

    def common(key, T, ret, before, touched):
        r.true(key + ':returns-self', ret is T, 'return value is not self')
        mp = meta_problem(T)
        if not r.true(key + ':meta', mp is None, mp):
            return False
        r.true(key + ':dims', list(T.row_dims) == case['rows'] and list(T.col_dims) == case['cols'])
        r.close(key + ':value', _dc(T.cores) / unit, want / unit, TOL)
        r.true(key + ':rank-growth', all(a <= b for a, b in zip(T.ranks, before['ranks'])),
               'ranks %s from %s' % (T.ranks, before['ranks']))
        for i in range(d):
            if i not in touched:
                r.true(key + ':untouched-core', same_bits(T.cores[i], before['cores'][i]),
                       'core %d outside the requested range changed' % i)
        return True

    # left sweeps
    pairs = [(None, None)] + [(s, e) for s in range(0, d - 1) for e in range(s, d - 1)]
    # (ortho_left validates isinstance(index, int) and raises its documented TypeError for NumPy integers; ortho_right admits them)
    for s, e in pairs:
        T = tt_from(cores0); before = snap(T)
        key = 'ortho_left' + ('' if s is None else ':partial')
        with r.op(key + ':call'):
            ret = T.ortho_left() if s is None else T.ortho_left(start_index=s, end_index=e)
            lo, hi = (0, d - 2) if s is None else (s, e)
            if common(key, T, ret, before, set(range(lo, hi + 2)) if hi >= lo else set()):
                for i in range(lo, hi + 1):
                    r.true(key + ':isometry', is_left_orth(T.cores[i]), 'core %d not left-orthonormal' % i)
    # the progress flag only switches the progress bar on
    T = tt_from(cores0); before = snap(T)
    with r.op('ortho_left:progress:call'):
        from vt.core import quiet as _quiet
        with _quiet():
            ret = T.ortho_left(progress=True)
        if common('ortho_left:progress', T, ret, before, set(range(d))):
            for i in range(d - 1):
                r.true('ortho_left:progress:isometry', is_left_orth(T.cores[i]), 'core %d not left-orthonormal' % i)
    pairs = [(None, None)] + [(s, e) for s in range(d - 1, 0, -1) for e in range(s, 0, -1)]
    pairs += [(np.int32(s), np.int64(e)) for s, e in pairs[1:]]        # NumPy integers pass ortho_right's own validation
    pairs += [(0, 1)]                                                  # explicit start 0 with the default end 1: an empty sweep, nothing may change
    for s, e in pairs:
        T = tt_from(cores0); before = snap(T)
        key = 'ortho_right' + ('' if s is None else ':partial')
        with r.op(key + ':call'):
            ret = T.ortho_right() if s is None else T.ortho_right(start_index=s, end_index=e)
            hi, lo = (d - 1, 1) if s is None else (s, e)
            if common(key, T, ret, before, set(range(lo - 1, hi + 1)) if hi >= lo else set()):
                for i in range(lo, hi + 1):
                    r.true(key + ':isometry', is_right_orth(T.cores[i]), 'core %d not right-orthonormal' % i)
    T = tt_from(cores0); before = snap(T)
    with r.op('ortho:call'):
        ret = T.ortho()
        if common('ortho', T, ret, before, set(range(d))):
            for i in range(1, d):
                r.true('ortho:isometry', is_right_orth(T.cores[i]), 'core %d not right-orthonormal' % i)
    # call histories on ONE object: a sweep, then a core is replaced from outside (what the solvers do with t.cores[k] = ...)
    # or the opposite sweep is run, then the sweep again: the second sweep must establish the gauge afresh
    if d >= 2 and case['fam'] == 'gauss' and case.get('lay') != 'V':
        from vt.core import dense_cores
        for side in ('left', 'right'):
            sweep = (lambda T: T.ortho_left()) if side == 'left' else (lambda T: T.ortho_right())
            other = (lambda T: T.ortho_right()) if side == 'left' else (lambda T: T.ortho_left())
            iso = (lambda T: all(is_left_orth(T.cores[i]) for i in range(d - 1))) if side == 'left' else (lambda T: all(is_right_orth(T.cores[i]) for i in range(1, d)))
            for k in list(range(d)) + ['opposite', 'rank_transpose']:
                key = 'ortho_%s:after-history' % side
                with r.op(key + ':call'):
                    T = tt_from(cores0)
                    sweep(T)
                    if k == 'opposite':
                        other(T)
                    elif k == 'rank_transpose':
                        T.rank_transpose(overwrite=True)
                    else:
                        shp = T.cores[k].shape
                        new_core = rng.standard_normal(shp) + (1j * rng.standard_normal(shp) if case['c'] else 0)
                        T.cores[k] = new_core
                    ref = dense_cores([np.array(c_) for c_ in T.cores])
                    sweep(T)
                    mp = meta_problem(T)
                    if r.true(key + ':meta', mp is None, mp):
                        r.close(key + ':value', dense_cores(T.cores), ref, TOL, 'history: ortho_%s, %s, ortho_%s' % (side, k if isinstance(k, str) else 'core %d replaced' % k, side))
                        r.true(key + ':isometry', iso(T), 'history: ortho_%s, %s, ortho_%s: cores not orthonormal afterwards' % (side, k if isinstance(k, str) else 'core %d replaced' % k, side))
    return r
