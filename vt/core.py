"""Shared pieces: result accumulator, dense reference model (einsum, independent of the library), value families,
snapshots for bit-identity checks, metadata consistency."""
import hashlib, json, itertools, traceback, contextlib, io, sys
import numpy as np

EPS = np.finfo(float).eps


# ------------------------------------------------------------------------------------------------ result accumulator
class R:
    """Accumulates oracle comparisons of one case."""

    def __init__(self, case=None):
        self.case = case
        self.fails = []       # (finding key, message)
        self.checks = 0
        self.skipped = 0
        self.nontrivial = False
        self.outcome = 'ok'
        self.extra = {}

    def count(self, name, k=1):
        self.extra[name] = self.extra.get(name, 0) + k

    def fail(self, key, msg=''):
        self.fails.append((key, str(msg)[:1200]))
        self.outcome = 'fail'

    def true(self, key, cond, msg=''):
        self.checks += 1
        if not cond:
            self.fail(key, msg)
        return bool(cond)

    def close(self, key, got, want, tol=1e-9, msg=''):
        """||got-want|| <= tol*max(1,||want||)"""
        self.checks += 1
        try:
            got = np.asarray(got); want = np.asarray(want)
            if got.shape != want.shape:
                self.fail(key, 'shape %s != expected %s %s' % (got.shape, want.shape, msg))
                return False
            if not (np.all(np.isfinite(got))):
                self.fail(key, 'non-finite result %s' % msg)
                return False
            err = np.linalg.norm((got - want).ravel())
            sc = max(1.0, np.linalg.norm(want.ravel()))
            if not err <= tol * sc:
                self.fail(key, 'err=%.3e tol=%.1e scale=%.3e %s' % (err, tol, sc, msg))
                return False
            return True
        except Exception as e:
            self.fail(key, 'comparison raised %r %s' % (e, msg))
            return False

    def le(self, key, a, b, slack=0.0, msg=''):
        self.checks += 1
        if not (a <= b + slack):
            self.fail(key, '%.6e > %.6e (+%.1e) %s' % (a, b, slack, msg))
            return False
        return True

    @contextlib.contextmanager
    def op(self, key):
        """library call inside the admissible domain: an exception is a violation keyed by call site + type"""
        try:
            yield
        except Exception as e:
            tb = traceback.extract_tb(sys.exc_info()[2])
            site = ''
            for fr in reversed(tb):
                if '/repo/' in fr.filename:
                    site = '%s:%s' % (fr.filename.split('/repo/')[1], fr.name)
                    break
            self.fail('%s:exception:%s' % (key, type(e).__name__), '%r at %s' % (e, site))


@contextlib.contextmanager
def quiet():
    old = sys.stdout
    sys.stdout = io.StringIO()
    try:
        yield
    finally:
        sys.stdout = old


# ------------------------------------------------------------------------------------------------------ determinism
def rng_for(case, seed, salt=''):
    s = json.dumps(case, sort_keys=True, default=str) + '|' + str(seed) + '|' + salt
    return np.random.default_rng(int(hashlib.sha256(s.encode()).hexdigest()[:16], 16))


# ------------------------------------------------------------------------------------------------- reference model
def dense_cores(cores):
    """Contract a list of 4-way cores (r,m,n,r') -> array (r0, m1..md, n1..nd, rd). One einsum per core."""
    d = len(cores)
    acc = np.asarray(cores[0])
    # acc axes: r0, m1, n1, ..., mk, nk, rk
    for k in range(1, d):
        acc = np.einsum('...a,abcd->...bcd', acc, np.asarray(cores[k]))
    # now (r0, m1, n1, m2, n2, ..., rd) -> (r0, m1..md, n1..nd, rd)
    perm = [0] + [1 + 2 * i for i in range(d)] + [2 + 2 * i for i in range(d)] + [2 * d + 1]
    return np.transpose(acc, perm)


def dn(t):
    """dense value of a TT with boundary ranks 1: shape (m1..md, n1..nd)"""
    a = dense_cores(t.cores)
    assert a.shape[0] == 1 and a.shape[-1] == 1, 'boundary ranks must be 1'
    return a[0, ..., 0]


def dnb(t):
    """dense value keeping boundary rank axes: (r0, m.., n.., rd)"""
    return dense_cores(t.cores)


def mat(t):
    """matrix (prod m, prod n), C order (first index most significant) — the textbook matricisation"""
    a = dn(t)
    d = len(t.cores)
    m = int(np.prod(a.shape[:d])); n = int(np.prod(a.shape[d:]))
    return a.reshape(m, n)


def vec(t):
    return mat(t).reshape(-1)


# -------------------------------------------------------------------------------------------------- value families
def rand_array(rng, shape, cplx=False, fam='gauss'):
    if fam == 'gauss':
        a = rng.standard_normal(shape)
        if cplx:
            a = a + 1j * rng.standard_normal(shape)
    elif fam == 'int':
        a = rng.integers(-2, 3, size=shape).astype(float)
        if cplx:
            a = a + 1j * rng.integers(-2, 3, size=shape)
    elif fam == 'nonneg':
        a = rng.random(shape) + 0.1
        if cplx:
            a = a.astype(complex)
    else:
        raise ValueError(fam)
    return a


def core_cplx(cplx, i, d):
    """dtype pattern per core: False/True (all cores), 'tail' (core 0 real, the others complex), 'head' (only core 0
    complex) — real and complex cores mixed inside one tensor train"""
    if cplx == 'tail':
        return i > 0
    if cplx == 'head':
        return i == 0
    return bool(cplx)


def rand_cores(rng, rows, cols, ranks, cplx=False, fam='gauss'):
    d = len(rows)
    return [rand_array(rng, (ranks[i], rows[i], cols[i], ranks[i + 1]), core_cplx(cplx, i, d), fam) for i in range(d)]


def mk_tt(rng, rows, cols, ranks, cplx=False, fam='gauss'):
    from scikit_tt.tensor_train import TT
    return TT(rand_cores(rng, rows, cols, ranks, cplx, fam))


def tt_from(cores):
    from scikit_tt.tensor_train import TT
    return TT([np.array(c) for c in cores])


def rank_vectors(d, alphabet, r0=1, rd=1):
    for mid in itertools.product(alphabet, repeat=d - 1):
        yield [r0] + list(mid) + [rd]


def max_ranks(dims):
    """maximal (admissible) TT ranks of a tensor with mode sizes dims (product of row*col per site)"""
    d = len(dims)
    out = [1]
    for k in range(1, d):
        out.append(int(min(np.prod(dims[:k]), np.prod(dims[k:]))))
    return out + [1]


def admissible_ranks(dims, alphabet=None):
    mr = max_ranks(dims)
    ranges = []
    for k in range(1, len(dims)):
        rs = range(1, mr[k] + 1) if alphabet is None else [r for r in alphabet if r <= mr[k]]
        ranges.append(list(rs))
    for mid in itertools.product(*ranges):
        # also each rank must be admissible w.r.t. neighbours: r_k <= r_{k-1}*n_k and r_{k-1} <= n_k * r_k
        r = [1] + list(mid) + [1]
        if all(r[k + 1] <= r[k] * dims[k] and r[k] <= dims[k] * r[k + 1] for k in range(len(dims))):
            yield r


# -------------------------------------------------------------------------------------------- snapshots / metadata
def snap(t):
    return {'cores': [np.array(c, copy=True) for c in t.cores], 'order': t.order, 'row_dims': list(t.row_dims),
            'col_dims': list(t.col_dims), 'ranks': list(t.ranks), 'ids': [id(c) for c in t.cores]}


def same_bits(a, b):
    a = np.asarray(a); b = np.asarray(b)
    return a.shape == b.shape and a.dtype == b.dtype and bool(np.array_equal(a, b))


def unchanged(t, s):
    """bit-identical cores and identical metadata"""
    if t.order != s['order'] or list(t.row_dims) != s['row_dims'] or list(t.col_dims) != s['col_dims'] or \
            list(t.ranks) != s['ranks'] or len(t.cores) != len(s['cores']):
        return False
    return all(same_bits(c, c0) for c, c0 in zip(t.cores, s['cores']))


def meta_problem(t):
    """None if order/row_dims/col_dims/ranks/cores are mutually consistent, else a description"""
    try:
        if not isinstance(t.cores, list):
            return 'cores is not a list'
        if t.order != len(t.cores):
            return 'order %s != len(cores) %s' % (t.order, len(t.cores))
        if len(t.row_dims) != t.order or len(t.col_dims) != t.order or len(t.ranks) != t.order + 1:
            return 'attribute lengths %s %s %s for order %s' % (len(t.row_dims), len(t.col_dims), len(t.ranks), t.order)
        import numbers
        for nm in ('row_dims', 'col_dims', 'ranks'):
            v = getattr(t, nm)
            if not isinstance(v, list):
                return '%s is a %s, not a list' % (nm, type(v).__name__)
            if not all(isinstance(x, numbers.Integral) and not isinstance(x, bool) for x in v):
                return '%s holds non-integers: %s' % (nm, [type(x).__name__ for x in v])
        if not isinstance(t.order, numbers.Integral):
            return 'order is a %s' % type(t.order).__name__
        for i, c in enumerate(t.cores):
            if not isinstance(c, np.ndarray) or c.ndim != 4:
                return 'core %d is not a 4-way ndarray (ndim=%s)' % (i, getattr(c, 'ndim', None))
            want = (t.ranks[i], t.row_dims[i], t.col_dims[i], t.ranks[i + 1])
            if tuple(c.shape) != tuple(int(w) for w in want):
                return 'core %d shape %s != attributes %s' % (i, c.shape, want)
        return None
    except Exception as e:
        return 'metadata check raised %r' % (e,)


def subsets(n):
    for k in range(n + 1):
        for s in itertools.combinations(range(n), k):
            yield list(s)


def compositions(n):
    """all ordered lists of positive ints summing to n"""
    if n == 0:
        yield []
        return
    for first in range(1, n + 1):
        for rest in compositions(n - first):
            yield [first] + rest


def factorizations(n, maxlen=3):
    """ordered factorisations of n into factors >= 1 ... we restrict to factors >=2 except allow [n] and 1s explicitly"""
    out = []

    def rec(rem, cur):
        if rem == 1 and cur:
            out.append(list(cur))
            return
        if len(cur) >= maxlen:
            return
        for f in range(2, rem + 1):
            if rem % f == 0:
                rec(rem // f, cur + [f])
    rec(n, [])
    if n == 1:
        out.append([1])
    return out


# ----------------------------------------------------------------------------------- more generators / linear algebra
def lowrank_cores(rng, rows, cols, ranks, cplx=False, q=1):
    """cores whose right bond has numerical rank <= q although the representation rank is ranks[k+1]"""
    cores = []
    d = len(rows)
    for i in range(d):
        rl, rr = ranks[i], ranks[i + 1]
        qq = min(q, rr)
        X = rand_array(rng, (rl * rows[i] * cols[i], qq), cplx)
        Y = rand_array(rng, (qq, rr), cplx)
        cores.append((X @ Y).reshape(rl, rows[i], cols[i], rr))
    return cores


def left_unf(c):
    return c.reshape(c.shape[0] * c.shape[1] * c.shape[2], c.shape[3])


def right_unf(c):
    return c.reshape(c.shape[0], c.shape[1] * c.shape[2] * c.shape[3])


def is_left_orth(c, tol=1e-10):
    u = left_unf(np.asarray(c))
    return bool(np.linalg.norm(u.conj().T @ u - np.eye(u.shape[1])) <= tol * max(1, u.shape[1]))


def is_right_orth(c, tol=1e-10):
    v = right_unf(np.asarray(c))
    return bool(np.linalg.norm(v @ v.conj().T - np.eye(v.shape[0])) <= tol * max(1, v.shape[0]))


def unfolding_svals(a, d, k):
    """singular values of the k-th unfolding (sites 0..k-1 | k..d-1) of a dense (m1..md, n1..nd) array"""
    perm = [x for i in range(d) for x in (i, d + i)]
    b = np.transpose(a, perm)
    left = int(np.prod(b.shape[:2 * k]))
    return np.linalg.svd(b.reshape(left, -1), compute_uv=False)
