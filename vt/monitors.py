"""Monitors installed from outside on the module-level micro-step functions of scikit_tt (plain setattr, no source hooks).
Each sweep of ALS/MALS/evp.als/TDVP/ARR becomes a sequence of observable micro-steps (iteration, direction, core)."""
import numpy as np


def install(module, name, wrapper_factory):
    """replace module.<name> by wrapper_factory(original) once; returns the original"""
    orig = getattr(module, name)
    if getattr(orig, '_vt_wrapped', False):
        return orig._vt_orig
    w = wrapper_factory(orig)
    w._vt_wrapped = True
    w._vt_orig = orig
    setattr(module, name, w)
    return orig


def left_part(cores, i):
    """contraction of vector-type cores[0..i-1] -> (N_left, r_i)"""
    L = np.ones((1, 1))
    for c in cores[:i]:
        c = np.asarray(c)
        L = np.tensordot(L, c[:, :, 0, :], axes=(1, 0)).reshape(-1, c.shape[3])
    return L


def right_part(cores, j):
    """contraction of vector-type cores[j..d-1] -> (r_j, N_right)"""
    Rm = np.ones((1, 1))
    for c in reversed(cores[j:]):
        c = np.asarray(c)
        Rm = np.tensordot(c[:, :, 0, :], Rm, axes=(2, 0)).reshape(c.shape[0], -1)
    return Rm


def frame(cores, i, width, site_dims):
    """F with x = F vec(W), W the free block over sites i..i+width-1 in index order (alpha, sites.., beta)"""
    L = left_part(cores, i)
    Rm = right_part(cores, i + width)
    S = int(np.prod(site_dims[i:i + width]))
    return np.kron(L, np.kron(np.eye(S), Rm.T))
